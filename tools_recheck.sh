#!/bin/sh
# Re-runs the quick check of a seeded change's property against /repo with the change applied, stores the output as
# seeded/<name>/check.log and reverts /repo; the property's evidence file is saved and restored.  Usage: tools_recheck.sh <seed name>...
for NAME in "$@"; do
  D=/verif/seeded/$NAME
  ID=$(echo $NAME | cut -d- -f1)
  git -C /repo apply $D/patch.diff || { echo "$NAME: patch does not apply"; continue; }
  mkdir -p /var/tmp/p; cp /verif/evidence/$ID.json /var/tmp/p/evidence_recheck_keep_$ID.json 2>/dev/null
  /verif/bin/phqv $ID --tier quick > $D/check.log 2>&1
  RC=$?
  rm -f /verif/evidence/$ID.json; mv /var/tmp/p/evidence_recheck_keep_$ID.json /verif/evidence/$ID.json 2>/dev/null
  (exit $RC)
  echo "$NAME: exit $? ; $(grep -c '^VIOLATION' $D/check.log) VIOLATION lines, $(grep -c 'no-failing-input-found' $D/check.log) without failing input"
  git -C /repo checkout -- .
done
git -C /repo status --short | grep -v _build
