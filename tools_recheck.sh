#!/bin/sh
# Re-runs the quick check of a seeded change's property against /repo with the change applied, stores the output as
# seeded/<name>/check.log and reverts /repo.  Usage: tools_recheck.sh <seed name>...
for NAME in "$@"; do
  D=/verif/seeded/$NAME
  ID=$(echo $NAME | cut -d- -f1)
  git -C /repo apply $D/patch.diff || { echo "$NAME: patch does not apply"; continue; }
  /verif/bin/phqv $ID --tier quick > $D/check.log 2>&1
  echo "$NAME: exit $? ; $(grep -c '^VIOLATION' $D/check.log) VIOLATION lines, $(grep -c 'no-failing-input-found' $D/check.log) without failing input"
  git -C /repo checkout -- .
done
git -C /repo status --short | grep -v _build
