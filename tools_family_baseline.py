#!/usr/bin/env python3
"""Records, from the evidence files of a run on the unchanged tree, how many obligations each family generated
(family_baseline.json).  Checks use it as a vacuity guard: a family that generated obligations there and none now has
silently dropped out.  Run by hand after ./tools_runall.sh; checks never write this file."""
import json, glob, os
out = {}
for p in sorted(glob.glob('/verif/evidence/C*.json')):
    e = json.load(open(p))
    fams = e['coverage'].get('obligations_by_family')
    if fams and e.get('tier') == 'quick' and not e['coverage'].get('failed'):
        out[e['property_id']] = fams
json.dump(out, open('/verif/family_baseline.json', 'w'), indent=1, sort_keys=True)
print({k: len(v) for k, v in out.items()})
