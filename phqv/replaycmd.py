"""phqv --replay <file>: rebuild the native replay program stored in a replay file against /repo's
current headers, run it, and show the recorded mismatch next to the fresh output."""
import json, os, sys
from . import replay as R


def main(path):
    d = json.load(open(path))
    print('property   :', d.get('property'))
    print('obligation :', d.get('obligation'))
    print('function   :', d.get('function'), d.get('source'))
    print('verifier   :', d.get('verifier_output'))
    if d.get('inputs'):
        print('inputs     :', d['inputs'])
    if not d.get('cpp'):
        print('no native program recorded (%s)' % ('no failing input found' if not d.get('confirmed') else '?'))
        return 1
    wd = os.path.join(os.path.dirname(os.path.abspath(__file__)), '..', '.work', 'replaycmd')
    if d.get('compile_only'):
        import subprocess
        from . import astload
        os.makedirs(wd, exist_ok=True)
        src = os.path.join(wd, 'probe.cpp')
        open(src, 'w').write(d['cpp'])
        r = subprocess.run(['g++', '-std=c++17', '-fsyntax-only', '-I' + astload.INC, src], capture_output=True, text=True)
        print(d['cpp'])
        print('g++ -fsyntax-only exit code', r.returncode)
        print(r.stderr[-1500:])
        print('violation %s on the current tree' % ('REPRODUCES' if r.returncode != 0 else 'does not reproduce'))
        return 1 if r.returncode != 0 else 0
    sanitize = bool(d.get('sanitize')) or 'fsanitize' in d['cpp'][:200] or '_GLIBCXX_ASSERTIONS' in d['cpp'][:200]
    r, err = R.build_and_run(d['cpp'], wd, 'replay', sanitize=sanitize)
    if err:
        print('build/run error:', err)
        return 2
    print('recorded native output:', d.get('native_output'))
    print('recorded mismatch     :', d.get('mismatch'))
    print('fresh native output   :', r.stdout[-1500:].rstrip())
    if r.stderr.strip():
        print('stderr:', r.stderr[-1000:])
    print('exit code             :', r.returncode)
    # a replay program either reports by itself (MISMATCH / EXCEPTION lines, abnormal termination under sanitizers), or prints
    # raw values that are compared with the values recorded when the violation was found
    self_reporting = 'MISMATCH' in d['cpp'] or 'EXCEPTION' in d['cpp'] or sanitize
    if self_reporting:
        rep = 'MISMATCH' in r.stdout or 'EXCEPTION' in r.stdout or r.returncode != 0
    else:
        rec_out = d.get('native_output')
        fresh = {k: [str(x) for x in v] for k, v in R.parse_out(r.stdout).items()}
        rep = (fresh == rec_out) if isinstance(rec_out, dict) else (r.stdout.strip() == str(rec_out).strip())
    print('violation %s on the current tree' % ('REPRODUCES' if rep else 'does not reproduce (the recorded failing behaviour is gone)'))
    return 1 if rep else 0
