"""C10 - directions are unit vectors; magnitude times direction rebuilds the vector."""
import os, re, math
from fractions import Fraction
from ..core import Ob, pmap
from .. import replay, cemit
from ..lower import Unsupported, tstr
from ..symex import SymEx, mk, num, neg, cmp, land, lor, lnot, TRUE, FALSE, is_num, is_boolterm
from ..realob import RealTask, conj, leaves
from ..ieeeob import IeeeJob, param_leaves, cleaves, isnan_fn, run_jobs, write_replay, default_includes
from .quant_common import Quant, TENSORS
from .relations import Dims, call_with, param_names, template_of, vt, nleaves

DIRS = {'Direction': 3, 'PlanarDirection': 2}
BASE_OF = {'Direction': 'DimensionlessVector', 'PlanarDirection': 'DimensionlessPlanarVector'}


def norm2(xs):
    r = num(0)
    for x in xs:
        r = mk('+', r, mk('*', x, x))
    return r


def writes_value(f):
    """Does the lowered body of f write the data member `value` (directly, not through a callee)?"""
    found = [False]

    def expr(e):
        if not isinstance(e, tuple):
            return
        if e[0] in ('asg',):
            if targets_value(e[2]):
                found[0] = True
        for c in e[1:]:
            if isinstance(c, tuple):
                expr(c)
            elif isinstance(c, list):
                for x in c:
                    if isinstance(x, tuple):
                        if x and x[0] in ('assign', 'expr', 'decl', 'ret', 'if', 'for', 'block'):
                            stmt(x)
                        else:
                            expr(x)

    def targets_value(l):
        while isinstance(l, tuple) and l[0] in ('field', 'index', 'deref', 'seq', 'addr'):
            if l[0] == 'field' and l[3] == 'value':
                return True
            l = l[2] if l[0] != 'seq' else l[3]
        return False

    def stmt(s):
        k = s[0]
        if k == 'assign':
            if targets_value(s[1]):
                found[0] = True
            expr(s[2])
        elif k == 'expr':
            e = s[1]
            if e[0] == 'call':
                # constructor call that initialises the member in place: ctor(&self->..value, ...)
                if e[3] and e[3][0][0] == 'addr' and targets_value(e[3][0][2]):
                    found[0] = True
            expr(e)
        elif k == 'decl':
            if s[3] is not None:
                expr(s[3])
        elif k == 'ret':
            if s[1] is not None:
                expr(s[1])
        elif k == 'if':
            expr(s[1])
            for x in s[2] + s[3]:
                stmt(x)
        elif k == 'for':
            for x in s[1] + s[3] + s[4]:
                stmt(x)
        elif k == 'block':
            for x in s[1]:
                stmt(x)
    for s in f.body or []:
        stmt(s)
    return found[0]


def run(check):
    tier = check.tier
    ieee_types = ['double'] if tier == 'quick' else ['double', 'float']
    types = ['double', 'float', 'long double']      # REAL obligations for all three; bit-precise ones for ieee_types
    check.checker_cmd = 'clang++ -ast-dump=json | phqv lower | phqv symex (REAL) -> z3 nlsat ; goto-cc | goto-instrument --dfcc --enforce-contract Direction::Set | cbmc'
    check.assume('REAL: machine arithmetic treated as exact (the representation invariant |d|^2 == 1 or d == 0 holds exactly over the reals); the "four ulps" constant of the property is NOT machine-checked: the normalisation has 5 roundings on the longest path (3 squares+2 adds share paths, sqrt, divide), reported as a rounding count')
    check.assume('input range: finite components whose squared length neither overflows nor underflows')
    check.assume('libm sqrt contract r >= 0 and r*r == x (REAL); CBMC sqrt is correctly rounded (IEEE)')
    tasks, jobs = [], []
    loaded = dict(zip(types, pmap(lambda T_: Quant(check, types=(T_,), other_types=('float' if T_ == 'double' else 'double',), conv=True, hash_=False), types)))
    for T in types:
        if T not in ieee_types:
            jobs_mark = len(jobs)
        Q = loaded[T]
        low = Q.low
        D = Dims(Q)
        tag = T.replace(' ', '_')
        for dcls, n in DIRS.items():
            canon = Q.canon(dcls, T)
            base = Q.canon(BASE_OF[dcls], T)
            # ---- writers of the stored vector (static fact from the lowered bodies)
            writers = []
            for c in (canon, base):
                for f in Q.methods(c):
                    if f.body is not None and writes_value(f):
                        if c == base and low.access_of(f.node['id']) != 'public':
                            continue       # protected helpers of the base: reachable only through the direction's own members
                        writers.append(f)
            ob = Ob('C10.writers.%s.%s' % (dcls, tag), 'static', canon, None)
            ob.backend = 'lowered IR scan'
            names = sorted(set('%s(%s)' % (f.node.get('name'), ','.join(template_of(low, pt) or tstr(vt(pt)) for pn, pt in f.params if pn != 'self')) for f in writers))
            ob.text = 'members of %s / %s that write the stored vector: %s; no public SetValue/MutableValue' % (dcls, BASE_OF[dcls], names)
            public_setters = [f for f in Q.methods(base) if f.node.get('name') in ('SetValue', 'MutableValue')] + \
                [f for f in Q.methods(base) if f.body is not None and writes_value(f) and low.access_of(f.node['id']) == 'public' and f.kind != 'ctor' and f.node.get('name') != 'operator=']
            ob.status = 'discharged' if not public_setters else 'failed'
            if public_setters:
                ob.detail = 'the base class exposes %s, which bypasses normalisation' % [f.node.get('name') for f in public_setters]
                rec = {'property': 'C10', 'obligation': ob.name, 'verifier_output': ob.detail, 'confirmed': True, 'mismatch': [ob.detail]}
                check.violations.append((ob, write_replay(check, ob, rec), ''))
            check.add(ob)
            # ---- every writer establishes the invariant (REAL)
            for f in writers:
                if f.kind not in ('ctor', 'method'):
                    continue
                nm = f.node.get('name')
                ps = [(pn, pt) for pn, pt in f.params if pn != 'self']
                if any(not floaty(low, pt) for _, pt in ps):
                    continue
                label = '%s(%s)' % ('ctor' if f.kind == 'ctor' else nm, ','.join(template_of(low, pt) or 'number' if vt(pt)[0] != 'sarr' else 'array' for pn, pt in ps))
                name = 'C10.inv.%s.%s.real.%s' % (dcls, label, tag)
                try:
                    t = inv_task(check, Q, low, f, dcls, n, name, canon)
                except Unsupported as e:
                    check.error('%s: %s' % (name, e))
                    continue
                if t is not None:
                    tasks += t
                    check.under_contract(f)
            # ---- IEEE: zero vector in => +0 out, guard consistent, signs preserved
            sets = [f for f in Q.methods(canon) if f.node.get('name') == 'Set' and len(f.params) == 1 + n and all(vt(pt)[0] == 'f' for _, pt in f.params[1:])]
            if len(sets) != 1:
                check.error('C10: %s::Set(components) not found' % canon)
            else:
                f = sets[0]
                xs = [pn for pn, _ in f.params[1:]]
                dl = cleaves(low, 'self', ('rec', canon), arrow=True)
                small, big = ('0x1p-60f', '0x1p60f') if T == 'float' else ('0x1p-500', '0x1p500')
                rng = ['%s >= -%s && %s <= %s' % (x, big, x, big) for x in xs]
                allz = ' && '.join('%s == 0' % x for x in xs)
                notz = '(' + ' || '.join('%s >= %s || %s <= -%s' % (x, small, x, small) for x in xs) + ')'
                ens = ['!(%s) || (%s)' % (allz, ' && '.join('(%s == 0 && !(1 / %s < 0))' % (d, d) for d in dl))]
                jobs.append(IeeeJob(check, 'C10.zero.%s.ieee.%s' % (dcls, tag), low, f, ensures=ens, requires=rng, assigns='__CPROVER_assigns(*self)',
                                    backend=['sat', 'cvc5'], timeout=300, predicate=zero_pred))
                ens2 = ['(%s > 0 ? %s >= 0 : (%s < 0 ? %s <= 0 : %s == 0))' % (x, d, x, d, d) for x, d in zip(xs, dl)]
                js = IeeeJob(check, 'C10.sign.%s.ieee.%s' % (dcls, tag), low, f, ensures=ens2, requires=rng + [notz], assigns='__CPROVER_assigns(*self)',
                             backend=['sat', 'cvc5'], timeout=300, predicate=sign_pred)
                js.abstract_sqrt = True
                jobs.append(js)
                check.under_contract(f)
        # ---- vector quantities: magnitude type / value, typed accessors, magnitude x direction
        nv = 0
        for cls in Q.quantities:
            canon = Q.canon(cls, T)
            r = low.record(canon)
            b = low.record(r.bases[0]).template if r.bases else None
            if b not in ('DimensionalVector', 'DimensionalPlanarVector'):
                continue
            nv += 1
            try:
                tasks += vector_quantity_tasks(check, Q, low, D, cls, canon, T, tag)
            except Unsupported as e:
                check.error('C10.quantity.%s: %s' % (cls, e))
        check.extra['vector_quantity_types_' + tag] = nv
        if nv != 17:
            check.error('must-fire: expected 17 vector quantity types, found %d' % nv)
        if T not in ieee_types:
            del jobs[jobs_mark:]       # no bit-precise obligation for this type in this tier
    check.log('%d REAL obligations, %d IEEE obligations' % (len(tasks), len(jobs)))
    for t, ob in zip(tasks, pmap(lambda t: t.run(), tasks)):
        check.add(ob)
        if ob.status == 'failed':
            adjudicate(check, t, ob)
    run_jobs(check, jobs)


def floaty(low, t):
    try:
        return all(lt[0] == 'f' for lt in replay.leaf_types(low, vt(t)))
    except Unsupported:
        return False


def zero_pred(w, out, run):
    got = out.get('POST self', [])
    if all(float(v) == 0 for vs in w.values() for v in vs):
        return ['component %d is %r for the zero vector' % (i, x) for i, x in enumerate(got) if float(x) != 0.0 or math.copysign(1, float(x)) < 0]
    return []


def sign_pred(w, out, run):
    got = out.get('POST self', [])
    xs = [vs[0] for k, vs in w.items() if k != 'self']
    bad = []
    for i, (x, d) in enumerate(zip(xs, got)):
        if float(x) * float(d) < 0 or abs(float(d)) > 1.0000001:
            bad.append('component %d: input %r, direction %r' % (i, float(x), float(d)))
    return bad


def inv_task(check, Q, low, f, dcls, n, name, canon):
    """Post-state of the stored vector after writer f: |d|^2 == 1 when the input is non-zero, d == 0 when it is zero;
    parallel to and pointing the same way as the input; invariant under positive rescaling."""
    ps = [(pn, pt) for pn, pt in f.params if pn != 'self']
    if not ps:
        return None
    out = []
    S = SymEx(low)
    argl = {}
    xin = []
    assume = []
    for pn, pt in ps:
        k = nleaves(low, pt)
        syms = [S.sym('%s.%d' % (pn, i)) for i in range(k)]
        argl[pn] = syms
        tm = template_of(low, pt)
        if tm in DIRS:
            # a direction argument satisfies the invariant itself
            assume.append(lor(cmp('==', norm2(syms), num(1)), conj([cmp('==', x, num(0)) for x in syms])))
        xin.append((tm, syms))
    if f.kind == 'method':
        argl['self'] = [S.sym('self.%d' % i) for i in range(n)]
    post, sc = call_with(low, f, S, argl)
    if f.kind == 'method':
        post = leaves(sc.post['self'])
    d = post[:n]
    if len(xin) == 1 or all(len(s) == 1 for _, s in xin):
        x = xin[0][1] if len(xin) == 1 else [s[0] for _, s in xin]
    elif len(xin) == 2 and all(len(s) >= 2 for _, s in xin):
        x = None      # e.g. cross product of two directions: only the invariant is required
    else:
        x = None
    inv = lor(cmp('==', norm2(d), num(1)), conj([cmp('==', c, num(0)) for c in d]))
    t = RealTask(check, name, S, inv, assumes=assume + [c for c, _ in S.domain], function=f.qualname, loc=Q.loc(f), timeout=120)
    t.ob.text = 'after %s: |d|^2 == 1 or d == 0' % f.qualname
    t.meta = (low, f, 'inv')
    out.append(t)
    if x is not None and len(x) >= n and not any(tm in DIRS for tm, _ in xin):
        xs = x[:n]
        nz = cmp('<', num(0), norm2(x))
        if len(x) == n:
            # unit length for non-zero input, exactly zero for zero input
            g1 = lor(lnot(nz), cmp('==', norm2(d), num(1)))
            g0 = lor(nz, conj([cmp('==', c, num(0)) for c in d]))
            t1 = RealTask(check, name.replace('C10.inv.', 'C10.unit.'), S, land(g1, g0), assumes=assume + [c for c, _ in S.domain], function=f.qualname, loc=Q.loc(f), timeout=120)
            t1.ob.text = 'input non-zero => |d|^2 == 1; input zero => d == 0'
            t1.meta = (low, f, 'unit')
            out.append(t1)
            # parallel and same sense: d_i * x_j == d_j * x_i and d . x > 0
            par = []
            for i in range(n):
                for j in range(i + 1, n):
                    par.append(cmp('==', mk('*', d[i], xs[j]), mk('*', d[j], xs[i])))
            dotp = num(0)
            for a, b in zip(d, xs):
                dotp = mk('+', dotp, mk('*', a, b))
            g2 = lor(lnot(nz), land(conj(par), cmp('<', num(0), dotp)))
            t2 = RealTask(check, name.replace('C10.inv.', 'C10.parallel.'), S, g2, assumes=assume + [c for c, _ in S.domain], function=f.qualname, loc=Q.loc(f), timeout=120)
            t2.ob.text = 'input non-zero => d x input == 0 and d . input > 0'
            t2.meta = (low, f, 'parallel')
            out.append(t2)
            # invariance under positive rescaling of the input
            s = S.sym('scale')
            argl2 = dict(argl)
            for pn, pt in ps:
                argl2[pn] = [mk('*', s, v) for v in argl[pn]]
            post2, sc2 = call_with(low, f, S, argl2)
            if f.kind == 'method':
                post2 = leaves(sc2.post['self'])
            g3 = conj([cmp('==', a, b) for a, b in zip(d, post2[:n])])
            t3 = RealTask(check, name.replace('C10.inv.', 'C10.scale.'), S, g3, assumes=assume + [cmp('<', num(0), s)] + [c for c, _ in S.domain], function=f.qualname, loc=Q.loc(f), timeout=120)
            t3.ob.text = 'Direction(s x) == Direction(x) for s > 0'
            t3.meta = (low, f, 'scale')
            out.append(t3)
    return out


def vector_quantity_tasks(check, Q, low, D, cls, canon, T, tag):
    out = []
    fs = Q.methods(canon)
    n = nleaves(low, ('rec', canon))
    mag = [f for f in fs if f.node.get('name') == 'Magnitude' and len(f.params) == 1]
    dirf = [f for f in fs if f.node.get('name') in ('Direction', 'PlanarDirection') and len(f.params) == 1]
    if len(mag) != 1 or len(dirf) != 1:
        raise Unsupported('Magnitude()/Direction() members: %d/%d' % (len(mag), len(dirf)))
    mag, dirf = mag[0], dirf[0]
    # type of the magnitude: scalar class with the same declared dimension set (ground)
    ob = Ob('C10.quantity.%s.magnitude-type.%s' % (cls, tag), 'ground', mag.qualname, Q.loc(mag))
    ob.backend = 'exponent comparison'
    dm, dv = D.of_type(mag.ret), D.of_type(('rec', canon))
    ob.text = 'dim(%s) == dim(%s): %s == %s, and the magnitude has one component' % (tstr(vt(mag.ret)), canon, list(dm), list(dv))
    ob.status = 'discharged' if dm == dv and nleaves(low, mag.ret) == 1 else 'failed'
    if ob.status == 'failed':
        ob.detail = 'Magnitude() returns %s with dimension set %s, the vector quantity has %s' % (tstr(vt(mag.ret)), list(dm), list(dv))
        rec = {'property': 'C10', 'obligation': ob.name, 'verifier_output': ob.detail, 'confirmed': True, 'mismatch': [ob.detail]}
        check.violations.append((ob, write_replay(check, ob, rec), ''))
    check.add(ob)
    # value of the magnitude: Euclidean norm (REAL)
    S = SymEx(low)
    q = [S.sym('q.%d' % i) for i in range(n)]
    r, sc = call_with(low, mag, S, {'self': q})
    t = RealTask(check, 'C10.quantity.%s.Magnitude.real.%s' % (cls, tag), S, land(cmp('<=', num(0), r[0]), cmp('==', mk('*', r[0], r[0]), norm2(q))),
                 function=mag.qualname, loc=Q.loc(mag), timeout=120)
    t.ob.text = 'Magnitude() >= 0 and Magnitude()^2 == sum of squared components'
    t.meta = (low, mag, 'magnitude')
    out.append(t)
    check.under_contract(mag)
    # typed component accessors
    for i, c in enumerate('xyz'[:n]):
        acc = [f for f in fs if f.node.get('name') == c and len(f.params) == 1]
        if len(acc) != 1:
            raise Unsupported('component accessor %s()' % c)
        S2 = SymEx(low)
        q2 = [S2.sym('q.%d' % k) for k in range(n)]
        r2, _ = call_with(low, acc[0], S2, {'self': q2})
        t2 = RealTask(check, 'C10.quantity.%s.%s.real.%s' % (cls, c, tag), S2, cmp('==', r2[0], q2[i]), function=acc[0].qualname, loc=Q.loc(acc[0]))
        t2.ob.text = '%s() returns stored component %d, as the scalar type of the same dimensions' % (c, i)
        t2.meta = (low, acc[0], 'accessor')
        dacc = D.of_type(acc[0].ret)
        if dacc != dv:
            t2.goal = FALSE
            t2.ob.detail = 'accessor %s() has dimension set %s' % (c, list(dacc))
        out.append(t2)
        check.under_contract(acc[0])
    # magnitude x direction rebuilds the quantity
    scal = low.record(vt(mag.ret)[1])
    dname = 'Direction' if n == 3 else 'PlanarDirection'
    ctor = [f for f in fs if f.kind == 'ctor' and len(f.params) == 3 and template_of(low, f.params[1][1]) == scal.template and template_of(low, f.params[2][1]) == dname]
    if len(ctor) != 1:
        raise Unsupported('%s(%s, %s) constructor: %d found' % (cls, scal.template, dname, len(ctor)))
    S3 = SymEx(low)
    q3 = [S3.sym('q.%d' % k) for k in range(n)]
    m3, _ = call_with(low, mag, S3, {'self': q3})
    d3, _ = call_with(low, dirf, S3, {'self': q3})
    back, _ = call_with(low, ctor[0], S3, {param_names(ctor[0])[0]: m3, param_names(ctor[0])[1]: d3})
    t3 = RealTask(check, 'C10.quantity.%s.rebuild.real.%s' % (cls, tag), S3, conj([cmp('==', a, b) for a, b in zip(back, q3)]),
                  assumes=[cmp('<', num(0), norm2(q3))] + [c for c, _ in S3.domain], function=ctor[0].qualname, loc=Q.loc(ctor[0]), timeout=120)
    t3.ob.text = '%s(q.Magnitude(), q.Direction()) == q for |q| > 0' % cls
    t3.meta = (low, ctor[0], 'rebuild')
    out.append(t3)
    check.under_contract(ctor[0])
    check.under_contract(dirf)
    return out


def adjudicate(check, t, ob):
    low, f, what = t.meta
    rec = {'property': 'C10', 'obligation': ob.name, 'function': ob.function, 'source': ob.loc, 'verifier_output': ob.detail,
           'solver_model': {k: str(v) for k, v in (ob.cex or {}).items()} if isinstance(ob.cex, dict) else None, 'text': ob.text}
    confirmed = False
    try:
        import random
        rnd = random.Random(check.seed + 10)
        names = [pn for pn, pt in f.params if not (f.kind == 'ctor' and pn == 'self')]
        model = ob.cex if isinstance(ob.cex, dict) else {}
        if what == 'rebuild':
            # native: q from the solver's counterexample (then a few fixed vectors), rebuilt from its own magnitude and direction
            cls = low.record(f.record).template
            T = low.record(f.record).targs[-1]
            n = nleaves(low, ('rec', f.record))
            dn = 'Direction' if n == 3 else 'PlanarDirection'
            cands = []
            if all(model.get('q.%d' % i) is not None for i in range(n)):
                cands.append([Fraction(model['q.%d' % i]) for i in range(n)])
            cands += [[Fraction(3), Fraction(-4), Fraction(12)][:n], [Fraction(1, 2 ** 40), Fraction(-3, 2 ** 41), Fraction(1, 2 ** 39)][:n],
                      [Fraction(2 ** 40), Fraction(-3 * 2 ** 39), Fraction(2 ** 41)][:n]]
            from ..cemit import hexfloat
            for v in cands:
                cpp = ('#include <PhQ/%s.hpp>\n#include <cstdio>\n#include <cstring>\n#include <cmath>\n#include <limits>\nint main() {\n  const %s raw[%d] = {%s};\n'
                       '  auto q = PhQ::%s<%s>::Zero(); std::memcpy(&q, raw, sizeof raw);\n  PhQ::%s<%s> b(q.Magnitude(), q.%s());\n'
                       '  %s got[%d] = {}; std::memcpy(got, &b, sizeof(raw));\n  %s norm = 0; for (int i = 0; i < %d; ++i) norm += raw[i] * raw[i]; norm = std::sqrt(norm);\n'
                       '  int bad = 0; for (int i = 0; i < %d; ++i) if (!(std::fabs(got[i] - raw[i]) <= 64 * std::numeric_limits<%s>::epsilon() * norm)) { std::printf("MISMATCH component %%d: rebuilt %%.21Lg, original %%.21Lg\\n", i, (long double)got[i], (long double)raw[i]); bad++; }\n'
                       '  return bad ? 1 : 0;\n}\n') % (cls, T, n, ', '.join(hexfloat(x, T) for x in v), cls, T, cls, T, dn, T, n, T, n, n, T)
                r, err = replay.build_and_run(cpp, os.path.join(check.work, 'replay'), 'r_' + re.sub(r'\W+', '_', ob.name)[:150])
                if err:
                    rec['replay_error'] = err[:600]
                    break
                if 'MISMATCH' in r.stdout:
                    rec.update({'cpp': cpp, 'native_output': r.stdout, 'inputs': {'q': [str(x) for x in v]}, 'mismatch': r.stdout.strip().split('\n')[:4]})
                    confirmed = True
                    break
        for attempt in range(7 if what != 'rebuild' else 0):
            inputs = {}
            for pn in names:
                k = nleaves(low, dict(f.params)[pn])
                tm = template_of(low, dict(f.params)[pn])
                keys = ['%s.%d' % (pn, i) for i in range(k)] if pn != 'self' else ['q.%d' % i for i in range(k)]
                if attempt == 0 and all(model.get(x) is not None for x in keys):
                    inputs[pn] = [Fraction(model[x]) for x in keys]       # the solver's counterexample
                    continue
                if tm in DIRS:
                    v = [Fraction(3, 13), Fraction(4, 13), Fraction(12, 13)][:k] if k == 3 else [Fraction(3, 5), Fraction(4, 5)]
                else:
                    v = [Fraction(rnd.randint(-20, 20), rnd.choice([1, 2, 4])) for _ in range(k)]
                    if all(x == 0 for x in v):
                        v[0] = Fraction(1)
                inputs[pn] = v
            nc = replay.NativeCall(low, f)
            cpp = nc.program(inputs, includes=default_includes(low, f))
            r, err = replay.build_and_run(cpp, os.path.join(check.work, 'replay'), 'r_' + re.sub(r'\W+', '_', ob.name)[:150])
            if err:
                rec['replay_error'] = err
                break
            out = replay.parse_out(r.stdout)
            got = out.get('RET') if (f.ret != ('void',) or f.kind == 'ctor') else out.get('POST self')
            exact = [Fraction(x) if not isinstance(x, float) else None for x in (got or [])]
            got = [float(x) for x in (got or [])]
            bad = []
            if what in ('inv', 'unit', 'parallel', 'scale'):
                n = 3 if 'Planar' not in f.record else 2
                d = got[:n]
                nn = sum(x * x for x in d)
                # at the resolution of the numeric type (the components are read back exactly): |d|^2 within 16 units in the last place of 1
                Tn = low.record(f.record).targs[-1]
                eps = {'float': Fraction(1, 2 ** 23), 'double': Fraction(1, 2 ** 52), 'long double': Fraction(1, 2 ** 63)}[Tn]
                if all(x is not None for x in exact[:n]):
                    nx = sum(x * x for x in exact[:n])
                    if nx != 0 and abs(nx - 1) > 16 * eps:
                        bad.append('stored %s direction %r has squared length 1 %+.3g, i.e. %.0f units in the last place of the type away from 1' % (Tn, d, float(nx - 1), float(abs(nx - 1) / eps)))
                elif abs(nn - 1) > 1e-9 and nn != 0:
                    bad.append('stored direction %r has squared length %r' % (d, nn))
                xs = [float(x) for x in list(inputs.values())[-1]][:n] if len(inputs) == 1 or what != 'inv' else None
                if xs and not bad and what in ('parallel', 'unit', 'scale'):
                    dot = sum(a * b for a, b in zip(d, xs))
                    if dot <= 0:
                        bad.append('direction %r does not point the same way as the input %r' % (d, xs))
            elif what == 'magnitude':
                want = math.sqrt(sum(float(x) ** 2 for x in inputs['self']))
                if abs(got[0] - want) > 1e-9 * max(1, want):
                    bad.append('Magnitude() = %r, Euclidean norm = %r' % (got[0], want))
            elif what == 'accessor':
                i = 'xyz'.index(f.node.get('name'))
                if got[0] != float(inputs['self'][i]):
                    bad.append('%s() returns %r, component %d is %r' % (f.node.get('name'), got[0], i, float(inputs['self'][i])))
            if what == 'scale' and not bad:
                # the same call on the rescaled input must store the same direction
                sc_ = Fraction(model['scale']) if attempt == 0 and model.get('scale') is not None else Fraction(1, 2 ** (10 * (attempt + 1)))
                last = list(inputs)[-1]
                inputs2 = dict(inputs)
                inputs2[last] = [sc_ * x for x in inputs[last]]
                cpp2 = replay.NativeCall(low, f).program(inputs2, includes=default_includes(low, f))
                r2, err2 = replay.build_and_run(cpp2, os.path.join(check.work, 'replay'), 'r2_' + re.sub(r'\W+', '_', ob.name)[:150])
                if not err2:
                    out2 = replay.parse_out(r2.stdout)
                    got2 = out2.get('RET') if (f.ret != ('void',) or f.kind == 'ctor') else out2.get('POST self')
                    got2 = [float(x) for x in (got2 or [])][:n]
                    if any(abs(a - b) > 1e-9 for a, b in zip(d, got2)):
                        bad.append('direction of x = %r is %r, direction of %r * x is %r' % ([float(x) for x in inputs[last]], d, float(sc_), got2))
                        cpp = cpp + '\n// ---- second program (rescaled input) ----\n' + cpp2
            if bad:
                rec.update({'cpp': cpp, 'native_output': r.stdout, 'inputs': {k2: [str(x) for x in v] for k2, v in inputs.items()}, 'mismatch': bad})
                confirmed = True
                break
    except Exception as e:
        rec['replay_error'] = '%s: %s' % (type(e).__name__, e)
    rec['confirmed'] = confirmed
    check.violations.append((ob, write_replay(check, ob, rec), '' if confirmed else 'no-failing-input-found'))
