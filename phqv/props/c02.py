"""C02 - all conversion entry points agree; a quantity read back in its unit is unchanged."""
import os, re, json
from fractions import Fraction
from ..core import Ob, pmap
from .. import astload, cemit, cbmc, replay
from ..lower import Unsupported, tstr
from ..symex import SymEx, State, Ptr, mk, num, cmp, land, TRUE, is_num
from ..realob import SymCall, RealTask, leaves, conj
from ..ieeeob import write_replay
from .units_common import Units, UA
from . import dispatch

# unit types whose entry points are checked for every shape in the quick tier (all types: scalar + Vector forms)
QUICK_FULL = ('Length', 'Temperature', 'Time', 'Pressure')
SHAPES = [('array<3>', 3), ('PlanarVector', 2), ('Vector', 3), ('SymmetricDyad', 6), ('Dyad', 9)]


def run(check):
    tier = check.tier
    T = 'double'
    check.checker_cmd = 'clang++ -ast-dump=json | phqv tables/lower | goto-cc | goto-instrument --dfcc --enforce-contract {ConvertInPlace,Convert}<U,...> | cbmc (MiniSat) ; phqv symex (REAL) -> z3 for round trips and compile-time forms'
    check.assume('per-unit leaf conversions are uninterpreted functions here (tied to the real bodies by C01\'s leaf obligations); every entry point is proved to apply exactly To_original then From_new to each component, for every pair of enumerators in the declared range')
    check.assume('ConvertStatically<U, A, B> is one generic template per shape (no specialisation per unit): it is instantiated and proved equal to the run-time form for three ordered pairs of distinct enumerators per unit type, which exercises both of its steps with different units')
    check.assume('callee contracts of the 2 x (number of units) loop routines are emitted as generated stubs for the fixed size reached by the entry point (1, 2, 3, 6, 9); the loop routines themselves are proved against those contracts for one representative per direction after checking that all of them are the same IR up to the leaf they call')
    check.notes.append('std::vector forms (in place and copying) are proved for all sizes: arbitrary ghost element index, array routine replaced by its loop-contract-proved contract, std::vector copy construction by its library contract (fresh storage, same size, equal elements); the bounded run of the array routine (size <= 8) is kept as a cross-check and labelled bounded')
    check.notes.append('"to within one ulp / up to rounding" for the round trip is C01\'s leaf bound applied to the pair (u, u); here the round trip is exact over the reals')
    units = Units(check, types=[T], shapes=True)
    low, Tb = units.low, units.tables
    # ------------------------------------------------------------------ dispatch rows name the routine of their own enumerator
    for ut in units.unit_types:
        utn = ut.split('::')[1]
        vals = dict(units.enumerators(ut))
        for direction in ('To', 'From'):
            ob = Ob('C02.table.%s.%s' % (utn, direction), 'ground', 'Internal::MapOfConversions%sStandard<%s, %s>' % (direction, ut, T), 'include/PhQ/Unit/%s.hpp' % utn)
            ob.backend = 'table comparison'
            bad = []
            rows = Tb.enum_rows('MapOfConversions%sStandard' % direction, (ut, T))
            for k, v in rows:
                g = low.func_for(v[1])
                want = 'Conversions<%s, %d>' % (ut, k[3])
                if g.record != want or g.node.get('name') != direction + 'Standard':
                    bad.append('row %s calls %s::%s' % (k[2], g.record, g.node.get('name')))
            miss = [n for n in vals if n not in set(k[2] for k, v in rows)]
            ob.text = 'every row {u, f} of the table has f == Conversions<%s, u>::%sStandard<%s>, one row per enumerator (%d rows)' % (ut, direction, T, len(rows))
            ob.status = 'discharged' if not bad and not miss else 'failed'
            if ob.status == 'failed':
                ob.detail = '; '.join(bad[:4] + ['no row for %s' % miss if miss else ''])
                rec = {'property': 'C02', 'obligation': ob.name, 'verifier_output': ob.detail, 'confirmed': False}
                check.violations.append((ob, write_replay(check, ob, rec), 'no-failing-input-found'))
            check.add(ob)
    # ------------------------------------------------------------------ loop routines: one shape, proved on a representative
    loop_obligations(check, units, T)
    # ------------------------------------------------------------------ entry points, per unit type
    jobs = []
    vjobs = []
    for ut in units.unit_types:
        utn = ut.split('::')[1]
        for shape, N in SHAPES:
            for fname, kind in (('ConvertInPlace', 'inplace'), ('Convert', 'copy')):
                try:
                    f = dispatch.find_entry(units, fname, ut, T, shape)
                except Unsupported as e:
                    check.error('C02: %s' % e)
                    continue
                if tier == 'quick' and utn not in QUICK_FULL and shape != 'Vector':
                    continue
                jobs.append((ut, f, N, 'C02.%s.%s.%s' % (kind, shape.replace('<', '').replace('>', ''), utn), kind))
                check.under_contract(f)
        try:
            f = dispatch.find_entry(units, 'Convert', ut, T, 'scalar')
            jobs.append((ut, f, 1, 'C02.copy.scalar.%s' % utn, 'copy'))
            check.under_contract(f)
        except Unsupported as e:
            check.error('C02: %s' % e)
        try:
            f = find_vector_entry(units, ut, T)
            vjobs.append((ut, f, 'C02.inplace.std_vector.%s' % utn))
            check.under_contract(f)
            f = find_vector_entry(units, ut, T, 'Convert')
            vjobs.append((ut, f, 'C02.copy.std_vector.%s' % utn))
            check.under_contract(f)
        except Unsupported as e:
            check.error('C02: %s' % e)
    check.log('%d entry-point obligations' % len(jobs))
    obs = pmap(lambda j: dispatch.entry_point_job(check, units, j[0], T, j[1], j[2], j[3], j[4], timeout=(300 if tier == 'quick' else 1200)), jobs)
    for j, ob in zip(jobs, obs):
        check.add(ob)
        if ob.status == 'failed':
            adjudicate_entry(check, units, j, ob, T)
    for j, ob in zip(vjobs, pmap(lambda j: vector_entry_job(check, units, j[0], T, j[1], j[2]), vjobs)):
        check.add(ob)
        if ob.status == 'failed':
            adjudicate_vector(check, units, j, ob, T)
    # ------------------------------------------------------------------ REAL: round trips and compile-time forms
    tasks = []
    for ut in units.unit_types:
        utn = ut.split('::')[1]
        to, frm = units.loop_funcs(ut, T, 'To'), units.loop_funcs(ut, T, 'From')
        for uname, _ in units.enumerators(ut):
            if uname not in to or uname not in frm:
                continue
            lt, lf = units.leaf_of(to[uname]), units.leaf_of(frm[uname])
            S = SymEx(low)
            st = State()
            x = S.sym('x')
            b = S.newbox(st, x)
            S.call(lt, [Ptr(b, ())], st)
            S.call(lf, [Ptr(b, ())], st)
            t = RealTask(check, 'C02.roundtrip.%s.%s' % (utn, uname), S, cmp('==', st.mem[b], x), function=lt.qualname, loc='include/PhQ/Unit/%s.hpp:%s' % (utn, lt.loc[1]))
            t.ob.text = 'FromStandard_u(ToStandard_u(x)) == x for all real x (u = %s::%s): constructing in unit u and reading back in unit u returns the original number' % (ut, uname)
            tasks.append(t)
    tasks += static_tasks(check, units, T, quick=(tier == 'quick'))
    if check.extra.get('static_forms_seen', 0) < 200:
        check.error('must-fire: expected >= 200 instantiated compile-time forms, found %s' % check.extra.get('static_forms_seen'))
    # ------------------------------------------------------------------ members of the quantity classes forward to the entry points
    from . import c02_members
    c02_members.run_all(check)
    check.log('%d REAL obligations' % len(tasks))
    for t, ob in zip(tasks, pmap(lambda t: t.run(), tasks)):
        check.add(ob)
        if ob.status == 'failed':
            rec = {'property': 'C02', 'obligation': ob.name, 'function': ob.function, 'source': ob.loc, 'verifier_output': ob.detail,
                   'solver_model': {k: str(v) for k, v in (ob.cex or {}).items()} if isinstance(ob.cex, dict) else None, 'confirmed': False}
            m = re.match(r'C02\.roundtrip\.(\w+)\.(\w+)', ob.name)
            if m:
                cpp = '#include <PhQ/Unit/%s.hpp>\n#include <cstdio>\n#include <cmath>\nint main() { int bad = 0; const double xs[] = {1.0, 3.0, -7.5, 1000.0}; for (double x : xs) { double y = PhQ::Convert<PhQ::Unit::%s, double>(PhQ::Convert<PhQ::Unit::%s, double>(x, PhQ::Unit::%s::%s, PhQ::Standard<PhQ::Unit::%s>), PhQ::Standard<PhQ::Unit::%s>, PhQ::Unit::%s::%s); if (std::fabs(y - x) > 1e-9 * std::fabs(x)) { std::printf("MISMATCH %%.17g -> %%.17g\\n", x, y); bad++; } } return bad ? 1 : 0; }\n' % (
                    m.group(1), m.group(1), m.group(1), m.group(1), m.group(2), m.group(1), m.group(1), m.group(1), m.group(2))
                r, err = replay.build_and_run(cpp, os.path.join(check.work, 'replay'), 'r_' + re.sub(r'\W+', '_', ob.name))
                if not err:
                    rec['cpp'], rec['native_output'] = cpp, r.stdout
                    if 'MISMATCH' in r.stdout:
                        rec['confirmed'], rec['mismatch'] = True, r.stdout.strip().split('\n')
            ms = re.match(r'C02\.static\.(\w+)\.(\w+)\.(\w+)\.(\w+)$', ob.name)
            if ms:
                shape, utn, ea, eb = ms.groups()
                ctor = {'scalar': '1.5', 'array2': 'std::array<double, 2>{1.5, -2.5}', 'array3': 'std::array<double, 3>{1.5, -2.5, 3.5}',
                        'array6': 'std::array<double, 6>{1.5, -2.5, 3.5, 4.5, -5.5, 6.5}', 'array9': 'std::array<double, 9>{1.5, -2.5, 3.5, 4.5, -5.5, 6.5, 7.5, -8.5, 9.5}',
                        'PlanarVector': 'PhQ::PlanarVector<double>(1.5, -2.5)', 'Vector': 'PhQ::Vector<double>(1.5, -2.5, 3.5)',
                        'SymmetricDyad': 'PhQ::SymmetricDyad<double>(1.5, -2.5, 3.5, 4.5, -5.5, 6.5)', 'Dyad': 'PhQ::Dyad<double>(1.5, -2.5, 3.5, 4.5, -5.5, 6.5, 7.5, -8.5, 9.5)'}.get(shape)
                if ctor and getattr(check, 'static_replays', 0) < 12:
                    check.static_replays = getattr(check, 'static_replays', 0) + 1
                    A_, B_ = 'PhQ::Unit::%s::%s' % (utn, ea), 'PhQ::Unit::%s::%s' % (utn, eb)
                    cpp = ('#include <PhQ/Unit/%s.hpp>\n#include <PhQ/Unit.hpp>\n#include <cstdio>\n#include <cstring>\n#include <array>\nint main() {\n  const auto v = %s;\n'
                           '  const auto s = PhQ::ConvertStatically<PhQ::Unit::%s, %s, %s>(v);\n  const auto r = PhQ::Convert(v, %s, %s);\n'
                           '  if (std::memcmp(&s, &r, sizeof s) != 0) { const double* ps = reinterpret_cast<const double*>(&s); const double* pr = reinterpret_cast<const double*>(&r);\n'
                           '    for (unsigned i = 0; i < sizeof s / sizeof(double); ++i) if (ps[i] != pr[i]) std::printf("MISMATCH component %%u: compile-time form %%.17g, run-time form %%.17g\\n", i, ps[i], pr[i]);\n    return 1; }\n  return 0;\n}\n') % (
                               utn, ctor, utn, A_, B_, A_, B_)
                    r, err = replay.build_and_run(cpp, os.path.join(check.work, 'replay'), 'r_' + re.sub(r'\W+', '_', ob.name))
                    if err:
                        rec['replay_error'] = err[:500]
                    else:
                        rec['cpp'], rec['native_output'] = cpp, r.stdout
                        if 'MISMATCH' in r.stdout:
                            rec['confirmed'], rec['mismatch'] = True, r.stdout.strip().split('\n')[:6]
                            rec['inputs'] = {'original': ea, 'new': eb}
            check.violations.append((ob, write_replay(check, ob, rec), '' if rec['confirmed'] else 'no-failing-input-found'))


def find_vector_entry(units, ut, T, fname='ConvertInPlace'):
    """The instantiated PhQ::ConvertInPlace<ut, T>(std::vector<T>&, ut, ut) / PhQ::Convert<ut, T>(const std::vector<T>&, ut, ut)."""
    low, a = units.low, units.ast
    for o in a.walk():
        if o.get('kind') == 'FunctionDecl' and o.get('name') == fname and low.has_body(o) and \
                any(x.get('kind') == 'TemplateArgument' for x in o.get('inner', ())):
            ps = [x for x in o.get('inner', ()) if x.get('kind') == 'ParmVarDecl']
            if len(ps) != 3:
                continue
            try:
                t0, t1 = low.ntype(ps[0]), low.ntype(ps[1])
            except (Unsupported, ValueError):
                continue
            if t1 == ('enum', ut) and t0 == ('ref', ('vec', ('f', T))):
                return low.lower_func(o)
    raise Unsupported('%s<%s, %s>(std::vector&) not instantiated' % (fname, ut, T))


def vector_entry_job(check, units, ut, T, f, name):
    """std::vector in-place form, all sizes: for an arbitrary element index k < size the element becomes
    Conv(old element k, original, new) bit for bit; data pointer and size are unchanged.  The array routines are replaced
    by their contract (C02.loop.*.all-sizes): they must be called on the whole buffer, element k becomes leaf(element k).
    The other elements keep their (arbitrary) initial values in the stub: only element k is observed, and any dependence of
    the observed element on another element would fail the assertion because that element is arbitrary."""
    low = units.low
    loops_to = units.loop_funcs(ut, T, 'To')
    loops_from = units.loop_funcs(ut, T, 'From')
    ob = Ob(name, 'IEEE', f.qualname, '%s:%s' % (os.path.relpath(f.loc[0], astload.REPO), f.loc[1]))
    try:
        E = cemit.CEmitter(low)
        spec, conv = dispatch.spec_functions(E, units, ut, T, loops_to, loops_from)
        vals = [v for _, v in units.enumerators(ut)]
        lo, hi = min(vals), max(vals)
        KT = E.ctype(('enum', ut))
        VT = E.ctype(('vec', ('f', T)))
        spec += 'static unsigned long long phqv_bits(%s a) { union { %s d; unsigned long long u; } x; x.u = 0; x.d = a; return x.u; }\n' % (T, T)
        spec += '%s *phqv_d0; unsigned long phqv_n; unsigned long phqv_k;\n' % T
        copying = f.ret != ('void',)
        stubs, stubbed = [], []
        for lf in list(loops_to.values()) + list(loops_from.values()):
            pv, ps = lf.params[0][0], lf.params[1][0]
            stubs.append('%s\n{\n  __CPROVER_assert(__CPROVER_POINTER_OFFSET(%s) == 0 && __CPROVER_OBJECT_SIZE(%s) == %s * sizeof(%s) && %s == phqv_n, "callee contract requires the whole buffer of a vector of the original size");\n'
                         '  %s[phqv_k] = %s(%s[phqv_k]);\n}' % (
                             E.proto(lf), pv, pv, ps, T, ps, pv, dispatch.uf_name(lf), pv))
            stubbed.append(lf.cname)
        pre = ('void harness(void) {\n  %s v; unsigned long n; unsigned long k; %s o; %s nn;\n'
               '  __CPROVER_assume(n >= 1 && n < 1000000000000UL && k < n);\n'
               '  __CPROVER_assume(o >= %d && o <= %d && nn >= %d && nn <= %d);\n'
               '  v.data = (%s *)__CPROVER_allocate(n * sizeof(%s), 0); v.size = n;\n'
               '  phqv_d0 = v.data; phqv_n = n; phqv_k = k;\n  %s oldk = v.data[k];\n') % (VT, KT, KT, lo, hi, lo, hi, T, T, T)
        if not copying:
            harness = pre + ('  %s(&v, o, nn);\n'
                             '  __CPROVER_assert(v.data == phqv_d0 && v.size == n, "data pointer and size unchanged");\n'
                             '  __CPROVER_assert(phqv_bits(v.data[k]) == phqv_bits(%s(oldk, o, nn)), "element k == Conv(old element k, original, new)");\n}\n') % (f.cname, conv)
        else:
            harness = pre + ('  %s r = %s(&v, o, nn);\n'
                             '  __CPROVER_assert(v.data == phqv_d0 && v.size == n && phqv_bits(v.data[k]) == phqv_bits(oldk), "data pointer and size unchanged");\n'
                             '  __CPROVER_assert(r.size == n && !__CPROVER_same_object(r.data, v.data) && phqv_bits(r.data[k]) == phqv_bits(%s(oldk, o, nn)), "element k == Conv(old element k, original, new)");\n}\n') % (VT, f.cname, conv)
        txt = E.unit([f], extra=spec, bodyless=stubbed) + '\n'.join(stubs) + '\n' + harness
        ob.text = 'for every size n in [1, 10^12), every k < n, every pair of enumerators in [%d, %d]: %s(v, o, nn): element k of the result (in place: of v) == Conv(old v[k], o, nn) bit for bit; in place: v.data() and v.size() unchanged; copying: the argument is unchanged and the result has its own storage of the same size; callees replaced by the array-routine contract and by the library contract of std::vector copy construction' % (lo, hi, f.qualname)
        r = cbmc.verify(txt, os.path.join(check.work, 'cbmc'), re.sub(r'\W+', '_', name), backend='sat', timeout=600, flags=['--bounds-check', '--pointer-check'], object_bits=None)
        ob.seconds, ob.backend = r.seconds, r.backend
        mine = [p for p in r.props if 'element k ==' in p[2] or 'data pointer and size' in p[2]]
        if r.status == 'ok':
            if len(mine) != 2:
                ob.status, ob.detail = 'error', 'vacuity: %d of 2 assertions reported' % len(mine)
            else:
                ob.status = 'discharged'
        elif r.status == 'failed':
            ob.status = 'failed'
            ob.detail = 'cbmc FAILURE: ' + '; '.join('%s (%s)' % (p[0], p[2][:90]) for p in r.failed()[:5])
            ob.cex = r.trace
        else:
            ob.status, ob.detail = 'undecided', '%s %s' % (r.status, r.note[:300])
    except Unsupported as e:
        ob.status, ob.detail = 'error', 'Unsupported: %s' % e
    return ob


def adjudicate_vector(check, units, j, ob, T):
    ut, f, name = j
    utn = ut.split('::')[1]
    tr = ob.cex or {}
    names = {v: n for n, v in units.enumerators(ut)}

    def ival(key):
        ent = tr.get(key)
        if not ent:
            return None
        m = re.search(r'-?\d+', ent[0])
        return int(m.group(0)) if m else None
    o, n = ival('o'), ival('nn')
    rec = {'property': 'C02', 'obligation': ob.name, 'function': ob.function, 'source': ob.loc, 'verifier_output': ob.detail,
           'trace_enumerators': {'original': names.get(o, o), 'new': names.get(n, n)}}
    confirmed = False
    pairs = [(o, n)] if o in names and n in names else []
    ks = sorted(names)
    pairs += [(a_, b_) for a_ in ks[-2:] for b_ in ks[-2:]] + [(ks[0], ks[-1]), (ks[-1], ks[0])]
    for (po, pn) in pairs[:7]:
        O, Nn = 'PhQ::Unit::%s::%s' % (utn, names[po]), 'PhQ::Unit::%s::%s' % (utn, names[pn])
        cpp = ('#include <PhQ/Unit/%s.hpp>\n#include <PhQ/Unit.hpp>\n#include <cstdio>\n#include <vector>\nint main() {\n'
               '  const std::vector<%s> v0 = {1.5, -2.5, 3.5, 1000.25, -0.125};\n  std::vector<%s> v = v0;\n  ' + ('PhQ::ConvertInPlace(v, %s, %s);' if '.inplace.' in name else 'v = PhQ::Convert(v0, %s, %s);') + '\n  int bad = 0;\n'
               '  if (v.size() != v0.size()) { std::printf("MISMATCH size %%zu\\n", v.size()); return 1; }\n'
               '  for (std::size_t i = 0; i < v0.size(); ++i) { const %s want = PhQ::Convert(v0[i], %s, %s); if (!(v[i] == want)) { std::printf("MISMATCH element %%zu: %%.17g, scalar conversion gives %%.17g\\n", i, (double)v[i], (double)want); bad++; } }\n'
               '  return bad ? 1 : 0;\n}\n') % (utn, T, T, O, Nn, T, O, Nn)
        r, err = replay.build_and_run(cpp, os.path.join(check.work, 'replay'), 'r_' + re.sub(r'\W+', '_', ob.name), sanitize=True)
        if err:
            rec['replay_error'] = err[:600]
            break
        if 'MISMATCH' in r.stdout or r.returncode != 0:
            confirmed = True
            rec.update({'cpp': cpp, 'native_output': r.stdout, 'inputs': {'original': names[po], 'new': names[pn]},
                        'mismatch': r.stdout.strip().split('\n')[:6] or [r.stderr[-300:]]})
            break
    rec['confirmed'] = confirmed
    check.violations.append((ob, write_replay(check, ob, rec), '' if confirmed else 'no-failing-input-found'))


def loop_obligations(check, units, T):
    low = units.low
    reps = {}
    nall = 0
    for ut in units.unit_types:
        for direction in ('To', 'From'):
            for uname, lf in units.loop_funcs(ut, T, direction).items():
                nall += 1
                callee = units.leaf_of(lf)
                shape = repr(lf.body).replace(callee.cname, 'LEAF')
                reps.setdefault(shape, []).append((ut, direction, uname, lf))
    ob = Ob('C02.loop.same-shape', 'static', 'Conversions<U,u>::{To,From}Standard<%s>' % T, 'include/PhQ/Unit.hpp:84')
    ob.backend = 'lowered IR comparison'
    ob.text = 'all %d loop routines have the same lowered body up to the leaf they call (%d distinct shapes)' % (nall, len(reps))
    ob.status = 'discharged' if len(reps) == 1 else 'failed'
    if len(reps) != 1:
        ob.detail = 'shapes: %s' % [(len(v), v[0][:3]) for v in reps.values()]
        rec = {'property': 'C02', 'obligation': ob.name, 'verifier_output': ob.detail, 'confirmed': False}
        check.violations.append((ob, write_replay(check, ob, rec), 'no-failing-input-found'))
    check.add(ob)
    jobs = []
    for shape, lst in reps.items():
        ut, direction, uname, lf = lst[0]
        leaf = units.leaf_of(lf)
        for N in (1, 2, 3, 6, 9):
            jobs.append((lf, leaf, N, False))
        jobs.append((lf, leaf, 8, True))
        jobs.append((lf, leaf, None, False))

    def unbounded(lf, leaf):
        """All sizes: loop contract (inductive invariant over a ghost element index k) under DFCC.  The invariant speaks about
        one arbitrary element k < size: it holds leaf(old element k) once the cursor has passed it and its old bits before;
        frame: only the buffer is written.  Bit-level comparison (no NaN / signed-zero exclusions)."""
        name = 'C02.loop.%s.all-sizes' % lf.record.replace(' ', '')
        ob = Ob(name, 'IEEE', lf.qualname, 'include/PhQ/Unit.hpp:%s' % lf.loc[1])
        E = cemit.CEmitter(low)
        pv, ps = lf.params[0][0], lf.params[1][0]
        uf = '__CPROVER_uninterpreted_leaf'
        ln = leaf.params[0][0]
        leaf_stub = '%s\n{\n  *%s = %s(*%s);\n}' % (E.proto(leaf), ln, uf, ln)
        ghost = ('double *phqv_base; double *phqv_end; unsigned long phqv_k; unsigned long phqv_size; unsigned long long phqv_oldbits; unsigned long long phqv_uoldbits;\n'
                 'double %s(double);\n'
                 'static unsigned long long phqv_bits(double a) { union { double d; unsigned long long u; } x; x.d = a; return x.u; }\n') % uf
        E.prologue = {lf.cname: ['phqv_base = %s; phqv_end = %s + %s; phqv_size = %s; phqv_oldbits = phqv_bits(%s[phqv_k]); phqv_uoldbits = phqv_bits(%s(%s[phqv_k]));' % (pv, pv, ps, ps, pv, uf, pv)]}
        off = '__CPROVER_POINTER_OFFSET(%s)' % pv
        # which kind of loop is it?  (the contract is generated for the loop as written: a cursor walking the buffer, or an index)
        def find_for(stmts):
            for s_ in stmts:
                if isinstance(s_, tuple) and s_ and s_[0] == 'for':
                    return s_
                if isinstance(s_, tuple):
                    for x_ in s_[1:]:
                        if isinstance(x_, list):
                            r_ = find_for(x_)
                            if r_ is not None:
                                return r_
            return None
        loop = find_for(lf.body)
        index_var = None
        if loop is not None and loop[2] is not None and loop[2][0] == 'bin' and loop[2][3][0] == 'var' and loop[2][3][1][0] == 'i':
            index_var = loop[2][3][2]
        if index_var is not None:
            E.loop_annot = {lf.cname: [
                '__CPROVER_assigns(%s, __CPROVER_object_whole(phqv_base))' % index_var,
                '__CPROVER_loop_invariant(%s <= phqv_size && %s == phqv_base && %s == phqv_size)' % (index_var, pv, ps),
                '__CPROVER_loop_invariant(*(unsigned long long *)(phqv_base + phqv_k) == ((phqv_k < %s) ? phqv_uoldbits : phqv_oldbits))' % index_var,
                '__CPROVER_decreases(phqv_size - %s)' % index_var]}
        else:
          E.loop_annot = {lf.cname: [
            '__CPROVER_assigns(%s, __CPROVER_object_whole(phqv_base))' % pv,
            '__CPROVER_loop_invariant(__CPROVER_same_object(%s, phqv_base) && %s >= 0 && (unsigned long)%s <= phqv_size * sizeof(double) && %s %% sizeof(double) == 0)' % (pv, off, off, off),
            '__CPROVER_loop_invariant(*(unsigned long long *)(phqv_base + phqv_k) == ((phqv_k * sizeof(double) < (unsigned long)%s) ? phqv_uoldbits : phqv_oldbits))' % off,
            '__CPROVER_decreases(phqv_end - %s)' % pv]}
        contract = ['__CPROVER_requires(%s < 1000000000000UL && __CPROVER_is_fresh(%s, %s * sizeof(double)))' % (ps, pv, ps),
                    '__CPROVER_requires(phqv_k < %s)' % ps,
                    '__CPROVER_assigns(__CPROVER_object_whole(%s), phqv_base, phqv_end, phqv_oldbits, phqv_uoldbits, phqv_size)' % pv,
                    '__CPROVER_ensures(phqv_bits(%s[phqv_k]) == phqv_bits(%s(__CPROVER_old(%s[phqv_k]))))' % (pv, uf, pv)]
        harness = 'void harness(void) { double *v; unsigned long n; unsigned long nk; phqv_k = nk; %s(v, n); }\n' % lf.cname
        txt = E.unit([lf], contracts={lf.cname: contract}, bodyless=[leaf.cname], extra=ghost) + leaf_stub + '\n' + harness
        r = cbmc.verify(txt, os.path.join(check.work, 'cbmc'), re.sub(r'\W+', '_', name), enforce=lf.cname, loop_contracts=True, backend='sat', timeout=900,
                        flags=['--bounds-check', '--pointer-check'], object_bits=None)
        ob.seconds, ob.backend = r.seconds, r.backend + ' (DFCC loop contracts)'
        ob.text = '\n'.join(contract + E.loop_annot[lf.cname]) + '\n/* for every size < 10^12 and every index k < size: element k becomes leaf(old element k) bit for bit; only the buffer is written; the loop terminates */'
        inv = [p for p in r.props if 'loop_invariant_step' in p[0]]
        post = [p for p in r.props if '.postcondition' in p[0]]
        if r.status == 'ok':
            if len(inv) != 2 or len(post) != 1:
                ob.status, ob.detail = 'error', 'vacuity: %d invariant-step and %d postcondition obligations (a dropped loop contract shows as none)' % (len(inv), len(post))
            else:
                ob.status = 'discharged'
                ob.detail = '%d properties incl. loop invariant base/step, decreases, postcondition, frame' % len(r.props)
        elif r.status == 'failed':
            ob.status, ob.detail = 'failed', 'cbmc FAILURE: ' + '; '.join(p[0] + ' ' + p[2][:80] for p in r.failed()[:4])
        else:
            ob.status, ob.detail = 'undecided', r.status + ' ' + r.note[:200]
        return ob

    def go(j):
        lf, leaf, N, bounded = j
        if N is None:
            return unbounded(lf, leaf)
        name = 'C02.loop.%s.%s' % (lf.record.replace(' ', ''), ('n<=%d' % N) if bounded else ('n=%d' % N))
        ob = Ob(name, 'IEEE', lf.qualname, 'include/PhQ/Unit.hpp:%s' % lf.loc[1])
        E = cemit.CEmitter(low)
        pv, ps = lf.params[0][0], lf.params[1][0]
        uf = '__CPROVER_uninterpreted_leaf'
        ln = leaf.params[0][0]
        leaf_stub = '%s\n{\n  *%s = %s(*%s);\n}' % (E.proto(leaf), ln, uf, ln)
        h = ['static _Bool phqv_same(double a, double b) { return a == b || (a != a && b != b); }',
             'void harness(void) {', '  double buf[%d]; double old[%d]; unsigned long n;' % (N + 1, N + 1)]
        h.append('  __CPROVER_assume(%s);' % ('n <= %d' % N if bounded else 'n == %d' % N))
        h.append('  for (int i = 0; i < %d; ++i) old[i] = buf[i];' % (N + 1))
        h.append('  %s(buf, n);' % lf.cname)
        for k in range(N):
            h.append('  __CPROVER_assert(%s || phqv_same(buf[%d], %s(old[%d])), "element %d converted by the leaf");' % ('%d >= n' % k if bounded else '0', k, uf, k, k))
            if bounded:
                h.append('  __CPROVER_assert(%d < n || phqv_same(buf[%d], old[%d]), "element %d beyond size untouched");' % (k, k, k, k))
        h.append('  __CPROVER_assert(phqv_same(buf[%d], old[%d]), "nothing written past the end");' % (N, N))
        h.append('}')
        txt = E.unit([lf], bodyless=[leaf.cname], extra='double %s(double);\n' % uf) + leaf_stub + '\n' + '\n'.join(h) + '\n'
        r = cbmc.verify(txt, os.path.join(check.work, 'cbmc'), re.sub(r'\W+', '_', name), backend='sat', timeout=300, unwind=N + 2,
                        flags=['--bounds-check', '--pointer-check'])
        ob.seconds, ob.backend = r.seconds, r.backend
        ob.text = 'for all buffers and n %s: after %s(values, n) element k == leaf(old element k) for k < n and nothing else is written (unwinding assertions on)' % ('<= %d' % N if bounded else '== %d' % N, lf.qualname)
        if r.status == 'ok':
            ob.status = 'bounded' if bounded else 'discharged'
        elif r.status == 'failed':
            ob.status, ob.detail = 'failed', 'cbmc FAILURE: ' + '; '.join(p[0] + ' ' + p[2][:60] for p in r.failed()[:4])
        else:
            ob.status, ob.detail = 'undecided', r.status + ' ' + r.note[:200]
        return ob
    results = list(zip(jobs, pmap(go, jobs)))
    small_ok = all(ob.status in ('discharged', 'bounded') for j, ob in results if j[2] is not None)
    for j, ob in results:
        if j[2] is None and ob.status == 'failed' and small_ok:
            # the inductive invariant is written for the loop as it stands (a cursor walking the buffer); if the routine is
            # correct for every size that is unwound (1, 2, 3, 6, 9 and all sizes <= 8) but the invariant no longer goes
            # through, the proof - not the property - is what broke: undecided, never a violation
            ob.status = 'undecided'
            ob.detail += ' | the loop contract is not inductive for this loop although every unwound size is correct: proof artefact, not decided'
    for j, ob in results:
        if ob.status == 'bounded':
            check.bounded.append((ob.name, 'std::vector / run-time size form: size <= 8 (unwind 10 with unwinding assertions); not counted as proved'))
        check.add(ob)
        check.under_contract(j[0])
        if ob.status == 'failed':
            rec = {'property': 'C02', 'obligation': ob.name, 'function': ob.function, 'verifier_output': ob.detail, 'confirmed': False}
            check.violations.append((ob, write_replay(check, ob, rec), 'no-failing-input-found'))


def static_tasks(check, units, T, quick=False):
    """Compile-time forms: ConvertStatically<U, A, B>(x) equals the run-time Convert(x, A, B) as a real function, for
    the instantiations present in the TU (first / last non-standard unit against the standard unit)."""
    low, a = units.low, units.ast
    out = []
    seen = 0
    for o in a.walk():
        if o.get('kind') == 'FunctionDecl' and o.get('name') == 'ConvertStatically' and low.has_body(o) and \
                any(c.get('kind') == 'TemplateArgument' for c in o.get('inner', ())):
            tas = [c for c in o.get('inner', ()) if c.get('kind') == 'TemplateArgument']
            try:
                f = low.lower_func(o)
            except Unsupported as e:
                check.error('C02.static: %s' % e)
                continue
            ut = tas[0]['type']['qualType'].replace('PhQ::', '')
            vals = []
            for ta in tas[1:3]:
                v = ta.get('value')
                if v is None:
                    for x in a.walk(ta):
                        if x.get('kind') == 'ConstantExpr' and 'value' in x:
                            v = x['value']
                            break
                        if x.get('kind') == 'DeclRefExpr' and x['referencedDecl'].get('kind') == 'EnumConstantDecl':
                            v = low.enumconst[x['referencedDecl']['id']][2]
                            break
                vals.append(int(v))
            if len(f.params) != 1 or ut not in units.unit_types:
                continue
            if quick and ut.split('::')[1] not in QUICK_FULL:
                p0 = f.params[0][1]
                p0 = p0[1] if p0[0] == 'ptr' else p0
                if not (p0[0] == 'f' or (p0[0] == 'rec' and low.record(p0[1]).template == 'Vector') or (p0[0] == 'sarr' and p0[2] == 3)):
                    continue
            seen += 1
            names = {v: n for n, v in units.enumerators(ut)}
            pt = f.params[0][1]
            vt_ = pt[1] if pt[0] == 'ptr' else pt
            shape = 'scalar' if vt_[0] == 'f' else ('array<%d>' % vt_[2] if vt_[0] == 'sarr' else low.record(vt_[1]).template)
            try:
                g = dispatch.find_entry(units, 'Convert', ut, T, shape)
            except Unsupported:
                continue
            S = SymEx(low)
            sc1 = SymCall(low, f, symex=S)
            pre = sc1.pre[f.params[0][0]]
            sc2 = SymCall(low, g, symex=S, args={g.params[0][0]: pre, g.params[1][0]: num(vals[0]), g.params[2][0]: num(vals[1])})
            goal = conj([cmp('==', x, y) for x, y in zip(leaves(sc1.ret), leaves(sc2.ret))])
            t = RealTask(check, 'C02.static.%s.%s.%s.%s' % (shape.replace('<', '').replace('>', ''), ut.split('::')[1], names.get(vals[0]), names.get(vals[1])), S, goal,
                         function=f.qualname, loc='include/PhQ/Unit.hpp:%s' % f.loc[1])
            t.ob.text = 'ConvertStatically<%s, %s, %s>(x) == Convert(x, %s, %s) component-wise, for all real x' % (ut, names.get(vals[0]), names.get(vals[1]), names.get(vals[0]), names.get(vals[1]))
            out.append(t)
            check.under_contract(f)
    check.extra['static_forms_seen'] = seen
    return out


def adjudicate_entry(check, units, j, ob, T):
    ut, f, N, name, kind = j
    utn = ut.split('::')[1]
    tr = ob.cex or {}
    names = {v: n for n, v in units.enumerators(ut)}

    def ival(key):
        ent = tr.get(key)
        if not ent:
            return None
        m = re.search(r'-?\d+', ent[0])
        return int(m.group(0)) if m else None
    o, n = ival('in_' + f.params[1][0]), ival('in_' + f.params[2][0])
    rec = {'property': 'C02', 'obligation': ob.name, 'function': ob.function, 'source': ob.loc, 'verifier_output': ob.detail,
           'trace_enumerators': {'original': names.get(o, o), 'new': names.get(n, n)}}
    confirmed = False
    shape = name.split('.')[2]
    ctor = {'array3': 'std::array<double, 3>{1.5, -2.5, 3.5}', 'PlanarVector': 'PhQ::PlanarVector<double>(1.5, -2.5)', 'Vector': 'PhQ::Vector<double>(1.5, -2.5, 3.5)',
            'SymmetricDyad': 'PhQ::SymmetricDyad<double>(1.5, -2.5, 3.5, 4.5, -5.5, 6.5)', 'Dyad': 'PhQ::Dyad<double>(1.5, -2.5, 3.5, 4.5, -5.5, 6.5, 7.5, -8.5, 9.5)', 'scalar': '1.5'}[shape]
    comps = {'array3': ['v[0]', 'v[1]', 'v[2]'], 'PlanarVector': ['v.x()', 'v.y()'], 'Vector': ['v.x()', 'v.y()', 'v.z()'],
             'SymmetricDyad': ['v.xx()', 'v.xy()', 'v.xz()', 'v.yy()', 'v.yz()', 'v.zz()'],
             'Dyad': ['v.xx()', 'v.xy()', 'v.xz()', 'v.yx()', 'v.yy()', 'v.yz()', 'v.zx()', 'v.zy()', 'v.zz()'], 'scalar': ['v']}[shape]
    pairs = [(o, n)] if o in names and n in names else []
    pairs += [(a_, b_) for a_ in list(names)[:3] for b_ in list(names)[-3:]]
    for (po, pn) in pairs[:6]:
        O, Nn = 'PhQ::Unit::%s::%s' % (utn, names[po]), 'PhQ::Unit::%s::%s' % (utn, names[pn])
        body = '  auto v0 = %s; auto v = v0; const auto w0 = v0;\n' % ctor
        if kind == 'inplace':
            body += '  PhQ::ConvertInPlace(v, %s, %s);\n' % (O, Nn)
        else:
            body += '  v = PhQ::Convert(w0, %s, %s);\n' % (O, Nn)
        body += '  int bad = 0;\n'
        for c in comps:
            c0 = c.replace('v', 'v0', 1)
            body += '  { double want = PhQ::Convert(static_cast<double>(%s), %s, %s); if (!(%s == want)) { std::printf("MISMATCH component %s: %%.17g, scalar conversion gives %%.17g\\n", (double)%s, want); bad++; } }\n' % (c0, O, Nn, c, c, c)
        cpp = '#include <PhQ/Unit/%s.hpp>\n#include <PhQ/Unit.hpp>\n#include <cstdio>\n#include <array>\nint main() {\n%s  return bad ? 1 : 0; }\n' % (utn, body)
        r, err = replay.build_and_run(cpp, os.path.join(check.work, 'replay'), 'r_' + re.sub(r'\W+', '_', ob.name), sanitize=True)
        if err:
            rec['replay_error'] = err
            break
        if 'MISMATCH' in r.stdout or r.returncode != 0:
            confirmed = True
            rec.update({'cpp': cpp, 'native_output': r.stdout, 'native_stderr': r.stderr[-800:], 'inputs': {'original': names[po], 'new': names[pn]},
                        'mismatch': r.stdout.strip().split('\n')[:6] or [r.stderr[-300:]]})
            break
    rec['confirmed'] = confirmed
    check.violations.append((ob, write_replay(check, ob, rec), '' if confirmed else 'no-failing-input-found'))
