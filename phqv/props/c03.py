"""C03 - every relation between quantities is dimensionally homogeneous."""
import os, re
from fractions import Fraction
from ..core import Ob, pmap
from .. import replay
from ..lower import Unsupported, tstr
from ..symex import SymEx, mk, num, cmp, land, lnot, TRUE, is_num, is_boolterm
from ..realob import RealTask, conj, leaves
from ..ieeeob import write_replay, default_includes
from .quant_common import Quant, TENSORS, BASES
from .relations import Dims, scale_factor, call_with, param_names, template_of, vt, nleaves, DIM_NAMES

OPNAMES = {'operator+': 'plus', 'operator-': 'minus', 'operator*': 'times', 'operator/': 'over',
           'operator+=': 'pluseq', 'operator-=': 'minuseq', 'operator*=': 'timeseq', 'operator/=': 'overeq'}
SKIP_MEMBERS = {'Print', 'JSON', 'XML', 'YAML', 'Value', 'StaticValue', 'MutableValue', 'SetValue', 'Zero', 'Create', 'Dimensions', 'Unit',
                'operator=', 'Angle', 'AzimuthAngle', 'PolarAngle'}


def has_app(t, names=('acos',)):
    stack, seen = [t], set()
    while stack:
        x = stack.pop()
        if not isinstance(x, tuple) or id(x) in seen:
            continue
        seen.add(id(x))
        if x[0] == 'app' and x[1] in names:
            return True
        stack.extend(c for c in x[1:] if isinstance(c, tuple))
    return False


def float_only(low, t):
    try:
        return all(lt[0] == 'f' for lt in replay.leaf_types(low, vt(t)))
    except Unsupported:
        return False


def run(check):
    tier = check.tier
    types = ['double', 'float', 'long double']      # all three in every tier: a relation can be wrong in one instantiation only (literals, casts, defaulted Vector<>)
    check.checker_cmd = 'clang++ -ast-dump=json | phqv lower | phqv symex (REAL, two runs: inputs and rescaled inputs) -> z3 -T:60 qfnra-nlsat'
    check.assume('REAL: machine arithmetic treated as exact real arithmetic; the seven base-unit scale factors are arbitrary positive reals')
    check.assume('dimension set of a quantity type = RelatedDimensions<UnitType> of its Dimensional* base as extracted from the AST (zero vector for Dimensionless* bases, plain numbers, vectors/tensors of numbers); absolute temperature is treated by its stored SI value like every other quantity')
    check.assume('libm sqrt contract r >= 0 and r*r == x')
    check.notes.append('angle-valued relations (results of acos) are scale-invariance obligations of C11 and are not repeated here')
    tasks = []
    stats = {'ctor': 0, 'operator': 0, 'member': 0, 'free': 0, 'dims': 0}
    loaded = dict(zip(types, pmap(lambda T_: Quant(check, types=(T_,), other_types=(), conv=False, hash_=False), types)))
    for T in types:
        Q = loaded[T]
        low = Q.low
        D = Dims(Q)
        tag = T.replace(' ', '_')
        seen = {}
        cands = []
        for cls in Q.quantities:
            canon = Q.canon(cls, T)
            if canon not in low.records:
                check.error('C03: %s not instantiated' % canon)
                continue
            for f in Q.methods(canon):
                nm = f.node.get('name')
                ps = f.params[1:] if f.kind in ('ctor', 'method') else f.params
                if f.kind == 'static':
                    continue
                if not all(float_only(low, pt) for _, pt in ps):
                    continue
                if f.kind == 'ctor':
                    if not ps:
                        continue
                    if len(ps) == 1 and vt(ps[0][1])[0] == 'rec' and low.record(vt(ps[0][1])[1]).template == cls:
                        continue            # copy / precision-converting constructor
                    if all(vt(pt)[0] == 'f' for _, pt in ps) or any(vt(pt)[0] in ('sarr',) for _, pt in ps):
                        continue            # raw numbers in the standard unit: not a relation between quantities
                    if any(template_of(low, pt) in TENSORS for _, pt in ps) and len(ps) == 1:
                        continue            # private constructor from the raw stored value
                    cands.append(('ctor', cls, f))
                elif f.kind == 'method':
                    if nm in SKIP_MEMBERS or nm.startswith('Mutable') or nm.startswith('Set'):
                        continue
                    if f.ret != ('void',) and not (float_only(low, f.ret) or vt(f.ret)[0] == 'opt'):
                        continue
                    if vt(f.ret)[0] == 'opt':
                        continue
                    cands.append(('operator' if nm in OPNAMES else 'member', cls, f))
        for f in Q.free_functions(names={'operator*'}):
            if len(f.params) == 2 and vt(f.params[0][1])[0] == 'f' and template_of(low, f.params[1][1]) in Q.quantities:
                cands.append(('free', template_of(low, f.params[1][1]), f))
        for kind, cls, f in cands:
            nm = f.node.get('name')
            pts = [template_of(low, pt) or 'number' for pn, pt in f.params if pn != 'self']
            base = 'C03.hom.%s.%s(%s).real.%s' % (cls, OPNAMES.get(nm, nm) if kind != 'ctor' else 'ctor', ','.join(pts), tag)
            seen[base] = seen.get(base, 0) + 1
            name = base if seen[base] == 1 else '%s#%d' % (base, seen[base])
            try:
                t = hom_task(check, Q, low, D, f, kind, name)
            except Unsupported as e:
                if 'string' in str(e) or 'symbolic key' in str(e) or 'strings not enabled' in str(e):
                    continue
                check.error('%s: %s' % (name, e))
                continue
            if t is None:
                continue
            stats[kind] += 1
            tasks.append(t)
            check.under_contract(f)
            # ground: declared dimension sets add / subtract for * and /
            if kind in ('operator', 'free') and nm in ('operator*', 'operator/') and f.ret != ('void',):
                try:
                    a = D.of_type(f.params[0][1])
                    b = D.of_type(f.params[1][1])
                    r = D.of_type(f.ret)
                except Unsupported:
                    continue
                want = tuple(x + y for x, y in zip(a, b)) if nm == 'operator*' else tuple(x - y for x, y in zip(a, b))
                ob = Ob(name.replace('C03.hom.', 'C03.dims.').replace('.real.', '.ground.'), 'ground', f.qualname, Q.loc(f))
                ob.backend = 'exponent arithmetic'
                ob.text = 'dim(result) %s == dim(left) %s %s dim(right) %s' % (list(r), list(a), '+' if nm == 'operator*' else '-', list(b))
                ob.status = 'discharged' if r == want else 'failed'
                if ob.status == 'failed':
                    ob.detail = 'declared dimension set of the result is %s, operands give %s' % (list(r), list(want))
                    rec = {'property': 'C03', 'obligation': ob.name, 'function': ob.function, 'source': ob.loc, 'verifier_output': ob.detail,
                           'confirmed': True, 'mismatch': [ob.detail]}
                    check.violations.append((ob, write_replay(check, ob, rec), ''))
                check.add(ob)
                stats['dims'] += 1
    check.extra['relations'] = stats
    check.log('%d homogeneity obligations %s' % (len(tasks), stats))
    if len(tasks) < 800:
        check.error('must-fire: expected >= 800 relations, found %d' % len(tasks))
    for t, ob in zip(tasks, pmap(lambda t: t.run(), tasks)):
        check.add(ob)
        if ob.status == 'failed':
            adjudicate(check, t, ob)


def hom_task(check, Q, low, D, f, kind, name):
    S = SymEx(low)
    names = (['self'] if f.kind == 'method' else []) + [pn for pn in param_names(f) if pn != 'self']
    scales = [S.sym('s_' + n) for n in DIM_NAMES]
    argl, argl2 = {}, {}
    used = [0] * 7
    dims_in = {}
    for pn in names:
        pt = dict(f.params)[pn]
        n = nleaves(low, pt)
        d = D.of_type(pt)
        dims_in[pn] = d
        for i, e in enumerate(d):
            used[i] |= (e != 0)
        syms = [S.sym('%s.%d' % (pn, i)) for i in range(n)]
        fac = scale_factor(S, d, scales)
        argl[pn] = syms
        argl2[pn] = [mk('*', fac, x) for x in syms]
    r1, sc1 = call_with(low, f, S, argl)
    r2, sc2 = call_with(low, f, S, argl2)
    if f.ret == ('void',) and f.kind == 'method':
        r1, r2 = leaves(sc1.post['self']), leaves(sc2.post['self'])
        dr = dims_in['self']
    elif f.kind == 'ctor':
        dr = D.of_type(('rec', f.record))
    else:
        dr = D.of_type(f.ret)
    for i, e in enumerate(dr):
        used[i] |= (e != 0)
    if any(is_boolterm(x) for x in r1 if isinstance(x, tuple)):
        return None
    if any(has_app(x) for x in r1 + r2):
        return None
    if not any(used):
        return None       # purely dimensionless relation: nothing to rescale
    fr = scale_factor(S, dr, scales)
    goal = conj([cmp('==', y, mk('*', fr, x)) for x, y in zip(r1, r2)])
    pos = [cmp('<', num(0), s) for s, u in zip(scales, used) if u]
    # scalar inputs positive (relations are stated for positive magnitudes); tensors arbitrary
    for pn in names:
        if len(argl[pn]) == 1:
            pos.append(cmp('<', num(0), argl[pn][0]))
    pos += [c for c, _ in S.domain]
    t = RealTask(check, name, S, goal, assumes=pos, function=f.qualname, loc=Q.loc(f), timeout=60)
    t.ob.text = 'f(S(A) a, S(B) b, ...) == S(R) f(a, b, ...) with dim(inputs) = %s, dim(result) = %s, S(Q) = prod s_i^dim(Q)[i]' % (
        {k: list(v) for k, v in dims_in.items()}, list(dr))
    t.meta = (low, f, names, dims_in, dr)
    return t


def adjudicate(check, t, ob):
    """Replay natively: evaluate f on inputs and on inputs rescaled with s = (2, 3, 5, 7, 11, 13, 17)."""
    low, f, names, dims_in, dr = t.meta
    rec = {'property': 'C03', 'obligation': ob.name, 'function': ob.function, 'source': ob.loc, 'verifier_output': ob.detail,
           'solver_model': {k: str(v) for k, v in (ob.cex or {}).items()} if isinstance(ob.cex, dict) else None, 'text': ob.text}
    confirmed = False
    try:
        s = [Fraction(x) for x in (2, 3, 5, 7, 11, 13, 17)]

        def fac(d):
            r = Fraction(1)
            for si, e in zip(s, d):
                r *= si ** e
            return r
        primes = [3, 5, 7, 11, 13, 17, 19, 23, 29]
        inputs, inputs2, k = {}, {}, 0
        for pn in names:
            n = nleaves(low, dict(f.params)[pn])
            v = [Fraction(primes[(k + i) % len(primes)], 4) for i in range(n)]
            k += n
            inputs[pn] = v
            inputs2[pn] = [fac(dims_in[pn]) * x for x in v]
        outs = []
        for w, tag in ((inputs, 'a'), (inputs2, 'b')):
            nc = replay.NativeCall(low, f)
            cpp = nc.program(w, includes=default_includes(low, f))
            r, err = replay.build_and_run(cpp, os.path.join(check.work, 'replay'), 'r%s_%d' % (tag, abs(hash(ob.name)) % 10 ** 9))
            if err:
                raise Unsupported(err[:300])
            o = replay.parse_out(r.stdout)
            outs.append(o.get('RET') if f.ret != ('void',) or f.kind == 'ctor' else o.get('POST self'))
        r1, r2 = outs
        rec['inputs'] = {k2: [str(x) for x in v] for k2, v in inputs.items()}
        rec['scale_factors'] = [str(x) for x in s]
        bad = []
        for i, (x, y) in enumerate(zip(r1, r2)):
            want = float(fac(dr)) * float(x)
            if abs(float(y) - want) > 1e-9 * max(abs(want), 1e-300):
                bad.append('component %d: rescaling the base units by %s rescales the result by %r, its declared dimensions predict %r' % (
                    i, [str(v) for v in s], float(y) / float(x) if float(x) else float('nan'), float(fac(dr))))
        if bad:
            confirmed, rec['mismatch'] = True, bad
    except Exception as e:
        rec['replay_error'] = '%s: %s' % (type(e).__name__, e)
    rec['confirmed'] = confirmed
    check.violations.append((ob, write_replay(check, ob, rec), '' if confirmed else 'no-failing-input-found'))
