"""Helpers shared by the relation properties (C03, C05, C18): symbolic calls of constructors / members
with quantity-typed arguments, and declared dimension sets of quantity types."""
import os, re
from ..lower import Unsupported, tstr
from ..symex import SymEx, State, Ptr, mk, num, cmp, land, TRUE
from ..realob import SymCall, leaves
from .. import replay
from .quant_common import BASES, TENSORS

DIM_NAMES = ('Time', 'Length', 'Mass', 'ElectricCurrent', 'Temperature', 'SubstanceAmount', 'LuminousIntensity')


def set_leaves(S, low, t, vals):
    v = S.symbolic_value(t, '_tmp')
    it = iter(vals)

    def fill(x):
        if isinstance(x, dict):
            return {k: fill(y) for k, y in x.items()}
        if isinstance(x, list):
            return [fill(y) for y in x]
        return next(it)
    return fill(v)


def vt(t):
    return t[1] if t[0] in ('ptr', 'ref') else t


def template_of(low, t):
    t = vt(t)
    if t[0] == 'rec' and t[1] in low.records:
        return low.records[t[1]].template
    return None


def nleaves(low, t):
    return len(replay.leaf_types(low, vt(t)))


class Dims:
    """Declared dimension set of each quantity class: RelatedDimensions<UnitType> of its Dimensional* base,
    all-zero for Dimensionless* bases, plain numbers, vectors/tensors of numbers."""

    def __init__(self, Q):
        self.Q = Q
        self.low = Q.low
        self.T = Q.low.get_tables()
        self.cache = {}

    def of_type(self, t):
        t = vt(t)
        if t[0] in ('f', 'i', 'bool'):
            return (0,) * 7
        if t[0] != 'rec':
            raise Unsupported('dimension set of %s' % (t,))
        if t[1] in self.cache:
            return self.cache[t[1]]
        r = self.low.record(t[1])
        d = None
        if r.template in TENSORS or (r.template or '').startswith('Dimensionless'):
            d = (0,) * 7
        elif (r.template or '').startswith('Dimensional'):
            ut = r.targs[0]
            d = tuple(e for _, e in self.T.related_dimensions(ut))
        else:
            for b in r.bases:
                d = self.of_type(('rec', b))
                break
        if d is None:
            raise Unsupported('no dimension set for %s' % t[1])
        self.cache[t[1]] = d
        return d


def scale_factor(S, dims, syms):
    """Product of s_i^dims[i] as a term (positive symbols syms[i])."""
    numer, denom = num(1), num(1)
    for s, e in zip(syms, dims):
        for _ in range(abs(e)):
            if e > 0:
                numer = mk('*', numer, s)
            else:
                denom = mk('*', denom, s)
    return mk('/', numer, denom) if denom != num(1) else numer


def call_with(low, f, S, argleaves):
    """Call f (ctor / method / static / free) with given leaves per non-self parameter name (dict) and,
    for methods, 'self'.  Returns (result leaves, SymCall)."""
    args = {}
    for i, (pn, pt) in enumerate(f.params):
        if f.kind == 'ctor' and i == 0:
            continue
        if pn in argleaves:
            args[pn] = set_leaves(S, low, vt(pt), argleaves[pn])
    sc = SymCall(low, f, symex=S, args=args)
    if f.kind == 'ctor':
        return leaves(sc.post['self']), sc
    if sc.ret is None:
        return [], sc
    return leaves(sc.ret), sc


def param_names(f):
    return [pn for i, (pn, pt) in enumerate(f.params) if not (f.kind == 'ctor' and i == 0)]


def find_ctor(Q, cls, T, arg_templates):
    """The constructor of cls<T> whose parameter class templates are arg_templates (in that order)."""
    low = Q.low
    hits = []
    for f in Q.methods(Q.canon(cls, T)):
        if f.kind != 'ctor':
            continue
        ps = f.params[1:]
        if len(ps) != len(arg_templates):
            continue
        if [template_of(low, pt) for _, pt in ps] == list(arg_templates):
            hits.append(f)
    if len(hits) != 1:
        raise Unsupported('%s(%s): %d constructors found' % (cls, ', '.join(arg_templates), len(hits)))
    return hits[0]


def find_method(Q, cls, T, name, nparams=0):
    hits = [f for f in Q.methods(Q.canon(cls, T)) if f.kind == 'method' and f.node.get('name') == name and len(f.params) == 1 + nparams]
    if len(hits) != 1:
        raise Unsupported('%s::%s: %d members found' % (cls, name, len(hits)))
    return hits[0]


def cpp_quantity(low, t, vals, T):
    """C++ expression building a quantity of IR type t from raw component values (memcpy-free: through
    the public Create / constructors is type specific, so use the raw-layout route of replay.py)."""
    raise NotImplementedError
