"""C13 - Newtonian fluid models: linear viscous stress and its exact inverse."""
import os, re
from ..core import Ob, pmap
from ..lower import Unsupported
from ..symex import SymEx, mk, num, cmp, land, TRUE
from ..realob import SymCall, RealTask, leaves, conj
from ..ieeeob import write_replay
from .. import replay
from .models_common import Models
from .c12 import set_leaves, sym6, hooke, kind_of, virtual_obligation, NUMS


def run(check):
    tier = check.tier
    mtypes = list(NUMS)
    check.checker_cmd = 'clang++ -ast-dump=json (patched forward declarations) | phqv lower | phqv symex (REAL) -> z3 -T:120 qfnra-nlsat'
    check.assume('REAL: machine arithmetic treated as exact real arithmetic; the float/double/long double overloads are separate bodies proved against the same real formula')
    check.assume('positive viscosities: mu > 0, mu_b >= 0 (so 2 mu + 3 mu_b != 0)')
    tasks = []
    for MT in mtypes:
        M = Models(check, types=(MT,))
        low = M.low
        tag = MT.replace(' ', '_')
        for model, nfields in (('CompressibleNewtonianFluid', 2), ('IncompressibleNewtonianFluid', 1)):
            canon = M.canon(model, MT)
            fs = M.methods(canon)
            rec_t = ('rec', canon)
            fields = [fn for fn, _ in low.record(canon).fields]
            want_fields = ['dynamic_viscosity', 'bulk_dynamic_viscosity'][:nfields]
            if fields != want_fields:
                check.error('C13: %s has data members %s' % (canon, fields))
                continue
            for f in fs:
                nm = f.node.get('name')
                # constructor from the dynamic viscosity alone: zero bulk viscosity
                if f.kind == 'ctor' and len(f.params) == 2 and kind_of(low, f.params[1][1]) == 'DynamicViscosity':
                    S = SymEx(low)
                    mu = S.sym('mu')
                    sc = SymCall(low, f, symex=S, args={f.params[1][0]: set_leaves(S, f.params[1][1][1], [mu])})
                    post = leaves(sc.post['self'])
                    goal = cmp('==', post[0], mu)
                    text = '%s(mu) stores mu' % model
                    if nfields == 2:
                        goal = land(goal, cmp('==', post[1], num(0)))
                        text += ' and a bulk dynamic viscosity of exactly zero'
                    t = RealTask(check, 'C13.ctor1.%s.real.%s' % (model, tag), S, goal, function=f.qualname, loc=M.loc(f))
                    t.ob.text = text
                    t.meta = (model, f, 'ctor1', None, MT)
                    tasks.append(t)
                    check.under_contract(f)
                    continue
                if f.kind != 'method' or nm not in ('Stress', 'Strain', 'StrainRate'):
                    continue
                kinds = [kind_of(low, pt) for _, pt in f.params[1:]]
                argT = low.record(f.params[1][1][1][1]).targs[0]
                S = SymEx(low)
                mu, mub = S.sym('mu'), S.sym('mu_b')
                adm = [cmp('<', num(0), mu), cmp('<=', num(0), mub)]
                selfv = set_leaves(S, rec_t, [mu, mub][:nfields])
                lam = mub if nfields == 2 else num(0)
                args = {'self': selfv}
                e = sym6(S, 'arg')
                args[f.params[1][0]] = set_leaves(S, f.params[1][1][1], e)
                if len(f.params) == 3:
                    args[f.params[2][0]] = set_leaves(S, f.params[2][1][1], sym6(S, 'arg2'))
                name = 'C13.%s.%s(%s).%s.real.%s' % (model, nm, ','.join(kinds), argT.replace(' ', '_'), tag)
                try:
                    sc = SymCall(low, f, symex=S, args=args)
                except Unsupported as ex:
                    check.error('%s: %s' % (name, ex))
                    continue
                got = leaves(sc.ret)
                if nm == 'Stress' and kinds == ['StrainRate']:
                    goal = conj([cmp('==', x, y) for x, y in zip(got, hooke(mu, lam, e))])
                    text = 'Stress(D) == 2 mu D%s' % (' + mu_b tr(D) I' if nfields == 2 else '')
                elif nm == 'Stress' and kinds == ['Strain', 'StrainRate']:
                    d = leaves(args[f.params[2][0]])
                    goal = conj([cmp('==', x, y) for x, y in zip(got, hooke(mu, lam, d))])
                    text = 'Stress(strain, D) == 2 mu D%s (strain ignored)' % (' + mu_b tr(D) I' if nfields == 2 else '')
                elif nm == 'Stress' and kinds == ['Strain']:
                    goal = conj([cmp('==', x, num(0)) for x in got])
                    text = 'Stress(strain) == 0 for a fluid'
                elif nm == 'Strain':
                    goal = conj([cmp('==', x, num(0)) for x in got])
                    text = 'Strain(stress) == 0 for a fluid'
                elif nm == 'StrainRate':
                    back = hooke(mu, lam, got)
                    goal = conj([cmp('==', x, y) for x, y in zip(back, e)])
                    text = 'Stress(StrainRate(sigma)) == sigma: StrainRate inverts the viscous stress map'
                else:
                    continue
                t = RealTask(check, name, S, goal, assumes=adm, function=f.qualname, loc=M.loc(f), timeout=120)
                t.ob.text = text
                t.meta = (model, f, nm, kinds, MT)
                tasks.append(t)
                check.under_contract(f)
            virtual_obligation(check, M, canon, 'C13', tag)
        for nm, why in M.skipped:
            if 'str' in why:
                check.outside.append('%s: %s' % (nm, why))
            else:
                check.error('cannot translate %s: %s' % (nm, why))
    check.log('%d REAL obligations' % len(tasks))
    if len(tasks) < 30:
        check.error('must-fire: expected >= 30 obligations, got %d' % len(tasks))
    for t, ob in zip(tasks, pmap(lambda t: t.run(), tasks)):
        check.add(ob)
        if ob.status == 'failed':
            adjudicate(check, t, ob)
    ob = Ob('C13.linear', 'REAL', 'Newtonian fluid models', None)
    ob.backend = 'composition of discharged contracts'
    ob.text = 'both maps are linear: Stress(D) equals the linear form 2 mu D + mu_b tr(D) I for all D, and StrainRate is its inverse, hence linear'
    ob.status = 'discharged' if all(o.status == 'discharged' for o in check.obs if '.Stress(StrainRate)' in o.name or '.StrainRate(' in o.name) else 'undecided'
    check.add(ob)


def adjudicate(check, t, ob):
    model, f, nm, kinds, MT = t.meta
    rec = {'property': 'C13', 'obligation': ob.name, 'function': ob.function, 'source': ob.loc, 'verifier_output': ob.detail,
           'solver_model': {k: str(v) for k, v in (ob.cex or {}).items()} if isinstance(ob.cex, dict) else None, 'text': ob.text}
    confirmed = False
    try:
        # values that are not exactly representable in any narrower type, so that a hidden narrowing shows
        mu, mub = 0.3, (0.7 if model.startswith('Compressible') else 0.0)
        hdr = '#include <PhQ/ConstitutiveModel/%s.hpp>\n#include <cstdio>\nusing namespace PhQ;\n' % model
        sfx = {'float': 'F', 'double': '', 'long double': 'L'}[MT]       # literals in the model's own type (0.3L is not a double)
        mk_model = 'ConstitutiveModel::%s<%s> m(DynamicViscosity<%s>(%r%s, Unit::DynamicViscosity::PascalSecond)%s);' % (
            model, MT, MT, mu, sfx, (', BulkDynamicViscosity<%s>(%r%s, Unit::DynamicViscosity::PascalSecond)' % (MT, mub, sfx)) if model.startswith('Compressible') and nm != 'ctor1' else '')
        e = [1.0, 2.0, -3.0, 4.0, 0.5, -2.0]
        tr = e[0] + e[3] + e[5]
        sig = [2 * mu * x + (mub * tr if i in (0, 3, 5) else 0) for i, x in enumerate(e)]
        if nm == 'ctor1':
            body = '  %s\n  std::printf("%%.17g %s\\n", (double)m.DynamicViscosity().Value()%s);\n' % (
                mk_model, '%.17g' if model.startswith('Compressible') else '', ', (double)m.BulkDynamicViscosity().Value()' if model.startswith('Compressible') else '')
            expect = [mu] + ([0.0] if model.startswith('Compressible') else [])
        else:
            argT = re.search(r'<(.*)>', f.params[1][1][1][1]).group(1)
            unit = {'Strain': '', 'StrainRate': ', Unit::Frequency::Hertz', 'Stress': ', Unit::Pressure::Pascal'}
            tens = lambda kind, vals: '%s<%s>(SymmetricDyad<%s>(%s)%s)' % (kind, argT, argT, ', '.join(repr(float(x)) for x in vals), unit[kind])
            if nm == 'Stress' and kinds == ['StrainRate']:
                args, expect = tens('StrainRate', e), sig
            elif nm == 'Stress' and kinds == ['Strain', 'StrainRate']:
                args, expect = tens('Strain', [9, 8, 7, 6, 5, 4]) + ', ' + tens('StrainRate', e), sig
            elif nm == 'Stress':
                args, expect = tens('Strain', e), [0.0] * 6
            elif nm == 'Strain':
                args, expect = tens('Stress', e), [0.0] * 6
            else:
                args, expect = tens('Stress', sig), e
            body = '  %s\n  auto r = m.%s(%s);\n  const auto& v = r.Value();\n  std::printf("%%.25Lg %%.25Lg %%.25Lg %%.25Lg %%.25Lg %%.25Lg\\n", (long double)v.xx(), (long double)v.xy(), (long double)v.xz(), (long double)v.yy(), (long double)v.yz(), (long double)v.zz());\n' % (mk_model, nm, args)
        cpp = hdr + 'int main() {\n' + body + '  return 0; }\n'
        r, err = replay.build_and_run(cpp, os.path.join(check.work, 'replay'), 'r_' + re.sub(r'\W+', '_', ob.name)[:150])
        if err:
            rec['replay_error'] = err
        else:
            rec['cpp'], rec['native_output'] = cpp, r.stdout
            from decimal import Decimal
            from fractions import Fraction as Fr
            from ..cemit import round_to
            vals = [float(x) for x in r.stdout.split()]
            exact_vals = [Fr(Decimal(x)) if x not in ('inf', '-inf', 'nan', '-nan') else None for x in r.stdout.split()]
            argT_ = re.search(r'<(.*)>', f.params[1][1][1][1]).group(1) if nm != 'ctor1' else MT
            narrow = min((argT_, MT), key=lambda t_: {'float': 0, 'double': 1, 'long double': 2}[t_])
            tol = {'float': 1e-5, 'double': 1e-13, 'long double': 64.0 * 2.0 ** -63}[narrow]     # the precision of the narrower of model and argument type
            # expected values with the viscosities as the model holds them (the literals rounded to the model's type), exactly
            mu_x, mub_x = round_to(Fr(str(mu)), MT), round_to(Fr(str(mub)), MT)
            ex = [Fr(x) for x in e]
            trx = ex[0] + ex[3] + ex[5]
            sig_x = [2 * mu_x * x + (mub_x * trx if i in (0, 3, 5) else 0) for i, x in enumerate(ex)]
            if expect is sig:
                expect_x = sig_x
            elif expect is e:
                expect_x = None         # inverse of a rounded sigma: judged at double resolution below
            else:
                expect_x = [Fr(x) for x in expect]
            bad = []
            for i, (g, w) in enumerate(zip(vals, expect)):
                if expect_x is not None and exact_vals[i] is not None:
                    wx = expect_x[i]
                    if abs(exact_vals[i] - wx) > Fr(tol) * max(Fr(1), abs(wx)):
                        bad.append('component %d: got %s expected %.25g (tolerance %g relative: the precision of the result type %s)' % (i, r.stdout.split()[i], float(wx), tol, narrow))
                elif abs(g - w) > max(tol, 1e-13) * max(1.0, abs(w)):
                    bad.append('got %r expected %r' % (g, w))
            if bad or len(vals) != len(expect):
                confirmed = True
                rec['mismatch'] = bad or ['output %s' % r.stdout]
                rec['inputs'] = {'mu': mu, 'mu_b': mub, 'tensor': e}
    except Exception as ex:
        rec['replay_error'] = '%s: %s' % (type(ex).__name__, ex)
    rec['confirmed'] = confirmed
    check.violations.append((ob, write_replay(check, ob, rec), '' if confirmed else 'no-failing-input-found'))
