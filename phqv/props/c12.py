"""C12 - an elastic isotropic solid is the same material from any modulus pair."""
import os, re, json
from fractions import Fraction
from ..core import Ob, pmap
from .. import astload, replay
from ..lower import Unsupported, tstr
from ..symex import SymEx, State, Ptr, mk, num, neg, cmp, land, lor, lnot, TRUE, FALSE, is_num
from ..realob import SymCall, RealTask, leaves, conj
from ..ieeeob import write_replay
from .models_common import Models

NUMS = ('float', 'double', 'long double')


def moduli(mu, lam):
    """The seven moduli of isotropic elasticity as functions of (mu, lambda) - identities from the property."""
    two, three = num(2), num(3)
    s = mk('+', lam, mu)
    return {
        'ShearModulus': mu,
        'LameFirstModulus': lam,
        'YoungModulus': mk('/', mk('*', mu, mk('+', mk('*', three, lam), mk('*', two, mu))), s),
        'IsentropicBulkModulus': mk('+', lam, mk('/', mk('*', two, mu), three)),
        'IsothermalBulkModulus': mk('+', lam, mk('/', mk('*', two, mu), three)),
        'PWaveModulus': mk('+', lam, mk('*', two, mu)),
        'PoissonRatio': mk('/', lam, mk('*', two, s)),
    }


def kind_of(low, t):
    t = t[1] if t[0] == 'ptr' else t
    return low.record(t[1]).template if t[0] == 'rec' else None


def sym6(S, name):
    return [S.sym('%s.%d' % (name, i)) for i in range(6)]


def set_leaves(S, t, vals):
    """A symbolic value of record type t whose scalar leaves are vals (in order)."""
    v = S.symbolic_value(t, '_tmp')
    it = iter(vals)

    def fill(x):
        if isinstance(x, dict):
            return {k: fill(y) for k, y in x.items()}
        if isinstance(x, list):
            return [fill(y) for y in x]
        return next(it)
    return fill(v)


def hooke(mu, lam, e):
    """sigma = 2 mu eps + lambda tr(eps) I on (xx, xy, xz, yy, yz, zz)."""
    tr = mk('+', mk('+', e[0], e[3]), e[5])
    out = []
    for i, x in enumerate(e):
        v = mk('*', mk('*', num(2), mu), x)
        if i in (0, 3, 5):
            v = mk('+', v, mk('*', lam, tr))
        out.append(v)
    return out


def run(check):
    tier = check.tier
    mtypes = list(NUMS)
    check.checker_cmd = 'clang++ -ast-dump=json (patched forward declarations) | phqv lower | phqv symex (REAL) -> z3 -T:120 qfnra-nlsat'
    check.assume('REAL: machine arithmetic treated as exact real arithmetic; the three numeric-type overloads are three bodies proved against the same real formula ("same results to the precision of each type" = same real function; per-type rounding is not machine-checked)')
    check.assume('admissible materials: mu > 0 and lambda >= 0 (equivalently 0 <= nu < 1/2); for the pair (Lame first modulus, Poisson ratio) additionally nu > 0, because (lambda, nu) = (0, 0) does not determine mu')
    check.assume('libm sqrt contract r >= 0 and r*r == x for the two square-root constructors')
    tasks = []
    for MT in mtypes:
        M = Models(check, types=(MT,))
        low = M.low
        tag = MT.replace(' ', '_')
        canon = M.canon('ElasticIsotropicSolid', MT)
        fs = M.methods(canon)
        for nm, why in M.skipped:
            if 'str' in why:
                check.outside.append('%s: %s' % (nm, why))
            else:
                check.error('cannot translate %s: %s' % (nm, why))
        ctors = [f for f in fs if f.kind == 'ctor' and len(f.params) == 3]
        if len(ctors) != 20:
            check.error('must-fire: expected 20 two-modulus constructors, found %d' % len(ctors))
        rec_t = ('rec', canon)
        # ---------------- constructors: building from the pair defined by (mu0, lambda0) stores (mu0, lambda0)
        for f in ctors:
            k1, k2 = kind_of(low, f.params[1][1]), kind_of(low, f.params[2][1])
            S = SymEx(low)
            mu0, lam0 = S.sym('mu0'), S.sym('lambda0')
            md = moduli(mu0, lam0)
            if k1 not in md or k2 not in md:
                check.error('C12: constructor %s takes %s, %s' % (f.qualname, k1, k2))
                continue
            args = {f.params[1][0]: set_leaves(S, f.params[1][1][1], [md[k1]]),
                    f.params[2][0]: set_leaves(S, f.params[2][1][1], [md[k2]])}
            name = 'C12.ctor.%s+%s.real.%s' % (k1, k2, tag)
            try:
                sc = SymCall(low, f, symex=S, args=args)
            except Unsupported as e:
                check.error('%s: %s' % (name, e))
                continue
            post = sc.post['self']
            got_mu = leaves(post['shear_modulus'])[0]
            got_lam = leaves(post['lame_first_modulus'])[0]
            adm = [cmp('<', num(0), mu0), cmp('<=', num(0), lam0)]
            if {k1, k2} == {'LameFirstModulus', 'PoissonRatio'}:
                # (lambda, nu) = (0, 0) does not determine the material (mu is arbitrary): no implementation can
                # recover it, so this pair is only required to round-trip for nu > 0
                adm[1] = cmp('<', num(0), lam0)
            goal = land(cmp('==', got_mu, mu0), cmp('==', got_lam, lam0))
            t = RealTask(check, name, S, goal, assumes=adm, function=f.qualname, loc=M.loc(f), inputs=['mu0', 'lambda0'], timeout=120)
            t.ob.text = 'admissible (mu0 > 0, lambda0 >= 0): ElasticIsotropicSolid(%s(mu0,lambda0), %s(mu0,lambda0)) stores shear modulus mu0 and Lame first modulus lambda0' % (k1, k2)
            t.meta = ('ctor', f, k1, k2, MT)
            tasks.append(t)
            check.under_contract(f)
        # ---------------- accessors
        for f in fs:
            nm = f.node.get('name')
            if f.kind == 'method' and len(f.params) == 1 and nm in moduli(num(1), num(1)):
                S = SymEx(low)
                mu, lam = S.sym('mu'), S.sym('lambda')
                selfv = set_leaves(S, rec_t, [mu, lam])
                # field order: check it
                st_names = [fn for fn, _ in low.record(canon).fields]
                if st_names[:2] != ['shear_modulus', 'lame_first_modulus']:
                    check.error('C12: unexpected data members %s' % st_names)
                    continue
                try:
                    sc = SymCall(low, f, symex=S, args={'self': selfv})
                except Unsupported as e:
                    check.error('C12.acc.%s: %s' % (nm, e))
                    continue
                got = leaves(sc.ret)[0]
                want = moduli(mu, lam)[nm]
                t = RealTask(check, 'C12.acc.%s.real.%s' % (nm, tag), S, cmp('==', got, want),
                             assumes=[cmp('<', num(0), mu), cmp('<=', num(0), lam)], function=f.qualname, loc=M.loc(f),
                             inputs=['mu', 'lambda'], timeout=120)
                t.ob.text = '%s() == identity of isotropic elasticity in (mu, lambda)' % nm
                t.meta = ('acc', f, nm, None, MT)
                tasks.append(t)
                check.under_contract(f)
        # ---------------- Stress / Strain overloads
        for f in fs:
            nm = f.node.get('name')
            if f.kind != 'method' or nm not in ('Stress', 'Strain', 'StrainRate'):
                continue
            kinds = [kind_of(low, pt) for _, pt in f.params[1:]]
            argT = low.record(f.params[1][1][1][1]).targs[0]
            atag = argT.replace(' ', '_')
            S = SymEx(low)
            mu, lam = S.sym('mu'), S.sym('lambda')
            adm = [cmp('<', num(0), mu), cmp('<=', num(0), lam)]
            selfv = set_leaves(S, rec_t, [mu, lam])
            args = {'self': selfv}
            e = sym6(S, 'eps')
            args[f.params[1][0]] = set_leaves(S, f.params[1][1][1], e)
            d = None
            if len(f.params) == 3:
                d = sym6(S, 'rate')
                args[f.params[2][0]] = set_leaves(S, f.params[2][1][1], d)
            name = 'C12.%s(%s).%s.real.%s' % (nm, ','.join(kinds), atag, tag)
            try:
                sc = SymCall(low, f, symex=S, args=args)
            except Unsupported as ex:
                check.error('%s: %s' % (name, ex))
                continue
            got = leaves(sc.ret)
            if nm == 'Stress' and kinds[0] == 'Strain':
                want = hooke(mu, lam, e)
                text = 'Stress(eps%s) == 2 mu eps + lambda tr(eps) I (strain rate ignored)' % (', rate' if d else '')
            elif nm == 'Stress' and kinds == ['StrainRate']:
                want = [num(0)] * 6
                text = 'Stress(strain rate) == 0 for an elastic solid'
            elif nm == 'Strain':
                # inverse of Hooke's law: the returned strain eps' satisfies 2 mu eps' + lambda tr(eps') I == sigma
                back = hooke(mu, lam, got)
                want = None
                goal = conj([cmp('==', x, y) for x, y in zip(back, e)])
                text = 'Stress(Strain(sigma)) == sigma, i.e. Strain inverts 2 mu eps + lambda tr(eps) I (2 mu + 3 lambda != 0 under admissibility)'
            elif nm == 'StrainRate':
                want = [num(0)] * 6
                text = 'StrainRate(stress) == 0 for an elastic solid'
            else:
                continue
            if want is not None:
                goal = conj([cmp('==', x, y) for x, y in zip(got, want)])
            t = RealTask(check, name, S, goal, assumes=adm, function=f.qualname, loc=M.loc(f), timeout=120)
            t.ob.text = text
            t.meta = ('map', f, nm, kinds, MT)
            tasks.append(t)
            check.under_contract(f)
        # ---------------- rebuild-from-any-reported-pair: composition lemma over the contracts above
        virtual_obligation(check, M, canon, 'C12', tag)
    check.log('%d REAL obligations' % len(tasks))
    for t, ob in zip(tasks, pmap(lambda t: t.run(), tasks)):
        check.add(ob)
        if ob.status == 'failed':
            adjudicate(check, t, ob)
    ob = Ob('C12.rebuild.composition', 'REAL', 'ElasticIsotropicSolid', None)
    ob.backend = 'composition of discharged contracts'
    ob.text = 'rebuilding from any reported pair reproduces the model: accessor contracts give the pair as functions of (mu, lambda); the constructor contract for that pair returns (mu, lambda)'
    ctor_ok = all(o.status == 'discharged' for o in check.obs if o.name.startswith('C12.ctor.') or o.name.startswith('C12.acc.'))
    ob.status = 'discharged' if ctor_ok else 'undecided'
    check.add(ob)


def virtual_obligation(check, M, canon, pid, tag):
    """Static AST fact: every pure virtual of ConstitutiveModel has exactly one final overrider in the class."""
    low, a = M.low, M.ast
    base = low.record('ConstitutiveModel')
    pures = [m for m in base.methods.values() if m.get('pure') or m.get('virtual') and m.get('pure')]
    if not pures:
        pures = [m for m in base.methods.values() if m.get('virtual') and not low.has_body(m) and m.get('kind') == 'CXXMethodDecl']
    r = low.record(canon)
    ob = Ob('%s.virtual.%s.%s' % (pid, r.template, tag), 'static', canon, None)
    ob.backend = 'clang AST (overrides edges)'
    missing = []
    for p in pures:
        sig = p['type']['qualType']
        hits = [m for m in r.methods.values() if m.get('name') == p.get('name') and m['type']['qualType'].replace('PhQ::', '') == sig.replace('PhQ::', '')]
        if len(hits) != 1:
            missing.append('%s %s (%d overriders)' % (p.get('name'), sig[:60], len(hits)))
    ob.text = '%d pure virtual functions of ConstitutiveModel each have exactly one overrider with identical signature in %s' % (len(pures), canon)
    if len(pures) < 10:
        ob.status, ob.detail = 'error', 'must-fire: found only %d pure virtuals' % len(pures)
    elif missing:
        ob.status, ob.detail = 'failed', '; '.join(missing[:5])
    else:
        ob.status = 'discharged'
    check.add(ob)


def adjudicate(check, t, ob):
    """Replay on the real code with a concrete admissible material."""
    what, f, a1, a2, MT = t.meta
    rec = {'property': check.pid, 'obligation': ob.name, 'function': ob.function, 'source': ob.loc, 'verifier_output': ob.detail,
           'solver_model': {k: str(v) for k, v in (ob.cex or {}).items()} if isinstance(ob.cex, dict) else None, 'text': ob.text}
    confirmed = False
    try:
        cpp, expect = native_program(what, f, a1, a2, MT)
        r, err = replay.build_and_run(cpp, os.path.join(check.work, 'replay'), 'r_' + re.sub(r'\W+', '_', ob.name)[:150])
        if err:
            rec['replay_error'] = err
        else:
            rec['cpp'], rec['native_output'] = cpp, r.stdout
            vals = [float(x) for x in r.stdout.split()]
            bad = []
            for g, w in zip(vals, expect):
                if abs(g - w) > 1e-6 * max(1.0, abs(w)):
                    bad.append('got %r expected %r' % (g, w))
            if bad or len(vals) != len(expect):
                confirmed = True
                rec['mismatch'] = bad or ['output %s' % r.stdout]
                rec['inputs'] = {'mu': 3.0, 'lambda': 5.0}
    except Exception as e:
        rec['replay_error'] = '%s: %s' % (type(e).__name__, e)
    rec['confirmed'] = confirmed
    check.violations.append((ob, write_replay(check, ob, rec), '' if confirmed else 'no-failing-input-found'))


def native_program(what, f, a1, a2, MT):
    mu, lam = 3.0, 5.0
    md = {'ShearModulus': mu, 'LameFirstModulus': lam, 'YoungModulus': mu * (3 * lam + 2 * mu) / (lam + mu),
          'IsentropicBulkModulus': lam + 2 * mu / 3, 'IsothermalBulkModulus': lam + 2 * mu / 3, 'PWaveModulus': lam + 2 * mu,
          'PoissonRatio': lam / (2 * (lam + mu))}
    hdr = '#include <PhQ/ConstitutiveModel/ElasticIsotropicSolid.hpp>\n#include <cstdio>\nusing namespace PhQ;\n'

    def q(kind, v, T=MT):
        if kind == 'PoissonRatio':
            return 'PoissonRatio<%s>(%r)' % (T, v)
        return '%s<%s>(%r, Unit::Pressure::Pascal)' % (kind, T, v)
    model = 'ConstitutiveModel::ElasticIsotropicSolid<%s>' % MT
    if what == 'ctor':
        body = '  %s m(%s, %s);\n  std::printf("%%.17g %%.17g\\n", (double)m.ShearModulus().Value(), (double)m.LameFirstModulus().Value());\n' % (
            model, q(a1, md[a1]), q(a2, md[a2]))
        return hdr + 'int main() {\n' + body + '  return 0; }\n', [mu, lam]
    if what == 'acc':
        body = '  %s m(%s, %s);\n  std::printf("%%.17g\\n", (double)m.%s().Value());\n' % (model, q('ShearModulus', mu), q('LameFirstModulus', lam), a1)
        return hdr + 'int main() {\n' + body + '  return 0; }\n', [md[a1]]
    # Stress / Strain maps on a fixed tensor
    nm, kinds = a1, a2
    argT = re.search(r'<(.*)>', f.params[1][1][1][1]).group(1)
    e = [1.0, 2.0, -3.0, 4.0, 0.5, -2.0]
    body = '  %s m(%s, %s);\n' % (model, q('ShearModulus', mu), q('LameFirstModulus', lam))
    unit = {'Strain': '', 'StrainRate': ', Unit::Frequency::Hertz', 'Stress': ', Unit::Pressure::Pascal'}
    def tens(kind, vals):
        return '%s<%s>(SymmetricDyad<%s>(%s)%s)' % (kind, argT, argT, ', '.join(repr(float(x)) for x in vals), unit[kind])
    tr = e[0] + e[3] + e[5]
    sig = [2 * mu * x + (lam * tr if i in (0, 3, 5) else 0) for i, x in enumerate(e)]
    if nm == 'Stress' and kinds[0] == 'Strain':
        args = tens('Strain', e) + (', ' + tens('StrainRate', [9, 8, 7, 6, 5, 4]) if len(kinds) == 2 else '')
        expect = sig
    elif nm == 'Stress':
        args, expect = tens('StrainRate', e), [0.0] * 6
    elif nm == 'Strain':
        args, expect = tens('Stress', sig) + (', ' + tens('StrainRate', [9, 8, 7, 6, 5, 4]) if len(kinds) == 2 else ''), e
    else:
        args, expect = tens('Stress', sig), [0.0] * 6
    body += '  auto r = m.%s(%s);\n  const auto& v = r.Value();\n  std::printf("%%.17g %%.17g %%.17g %%.17g %%.17g %%.17g\\n", (double)v.xx(), (double)v.xy(), (double)v.xz(), (double)v.yy(), (double)v.yz(), (double)v.zz());\n' % (nm, args)
    return hdr + 'int main() {\n' + body + '  return 0; }\n', expect
