"""C18 - named physical definitions evaluate their textbook formulas."""
import os, re, math
from fractions import Fraction
from ..core import Ob, pmap
from .. import replay
from ..lower import Unsupported
from ..symex import SymEx, mk, num, neg, cmp, land, TRUE, is_num
from ..realob import RealTask, conj, leaves
from ..ieeeob import write_replay, default_includes
from .quant_common import Quant
from .relations import call_with, param_names, find_ctor, find_method, template_of, vt

H = Fraction(1, 2)


def m(*xs):
    r = num(1)
    for x in xs:
        r = mk('*', r, x)
    return r


def d(a, b):
    return mk('/', a, b)


def sym_part(g):
    """Symmetric part of a 3x3 gradient given row-major (xx,xy,xz,yx,yy,yz,zx,zy,zz) -> (xx,xy,xz,yy,yz,zz)."""
    h = num(H)
    return [g[0], m(h, mk('+', g[1], g[3])), m(h, mk('+', g[2], g[6])), g[4], m(h, mk('+', g[5], g[7])), g[8]]


def von_mises_sq(s):
    xx, xy, xz, yy, yz, zz = s
    a = mk('-', xx, yy)
    b = mk('-', yy, zz)
    c = mk('-', zz, xx)
    shear = mk('+', mk('+', m(xy, xy), m(yz, yz)), m(xz, xz))
    return mk('+', m(num(H), mk('+', mk('+', m(a, a), m(b, b)), m(c, c))), m(num(3), shear))


# (row name, kind, class, member name | None, parameter class templates, formula(args: list of leaf lists) -> expected leaves,
#  'sqrt' if the formula gives the square of a non-negative scalar result)
TABLE = [
    ('dynamic pressure q = 1/2 rho v^2', 'ctor', 'DynamicPressure', None, ['MassDensity', 'Speed'], lambda a: [m(num(H), a[0][0], a[1][0], a[1][0])], None),
    ('dynamic kinematic pressure = 1/2 v^2', 'ctor', 'DynamicKinematicPressure', None, ['Speed'], lambda a: [m(num(H), a[0][0], a[0][0])], None),
    ('total pressure = static + dynamic', 'ctor', 'TotalPressure', None, ['StaticPressure', 'DynamicPressure'], lambda a: [mk('+', a[0][0], a[1][0])], None),
    ('total kinematic pressure = static + dynamic', 'ctor', 'TotalKinematicPressure', None, ['StaticKinematicPressure', 'DynamicKinematicPressure'], lambda a: [mk('+', a[0][0], a[1][0])], None),
    ('sound speed a = sqrt(K/rho)', 'ctor', 'SoundSpeed', None, ['IsentropicBulkModulus', 'MassDensity'], lambda a: [d(a[0][0], a[1][0])], 'sqrt'),
    ('sound speed a = sqrt(gamma p/rho)', 'ctor', 'SoundSpeed', None, ['HeatCapacityRatio', 'StaticPressure', 'MassDensity'], lambda a: [d(m(a[0][0], a[1][0]), a[2][0])], 'sqrt'),
    ('sound speed a = sqrt(gamma R T)', 'ctor', 'SoundSpeed', None, ['HeatCapacityRatio', 'SpecificGasConstant', 'Temperature'], lambda a: [m(a[0][0], a[1][0], a[2][0])], 'sqrt'),
    ('Mach number = v/a', 'ctor', 'MachNumber', None, ['Speed', 'SoundSpeed'], lambda a: [d(a[0][0], a[1][0])], None),
    ('Reynolds number = rho v L/mu', 'ctor', 'ReynoldsNumber', None, ['MassDensity', 'Speed', 'Length', 'DynamicViscosity'], lambda a: [d(m(a[0][0], a[1][0], a[2][0]), a[3][0])], None),
    ('Reynolds number = v L/nu', 'ctor', 'ReynoldsNumber', None, ['Speed', 'Length', 'KinematicViscosity'], lambda a: [d(m(a[0][0], a[1][0]), a[2][0])], None),
    ('Prandtl number = cp mu/k', 'ctor', 'PrandtlNumber', None, ['SpecificIsobaricHeatCapacity', 'DynamicViscosity', 'ScalarThermalConductivity'], lambda a: [d(m(a[0][0], a[1][0]), a[2][0])], None),
    ('Prandtl number = nu/alpha', 'ctor', 'PrandtlNumber', None, ['KinematicViscosity', 'ThermalDiffusivity'], lambda a: [d(a[0][0], a[1][0])], None),
    ('heat capacity ratio = Cp/Cv (extensive)', 'ctor', 'HeatCapacityRatio', None, ['IsobaricHeatCapacity', 'IsochoricHeatCapacity'], lambda a: [d(a[0][0], a[1][0])], None),
    ('heat capacity ratio = cp/cv (specific)', 'ctor', 'HeatCapacityRatio', None, ['SpecificIsobaricHeatCapacity', 'SpecificIsochoricHeatCapacity'], lambda a: [d(a[0][0], a[1][0])], None),
    ('gas constant = Cp - Cv (extensive)', 'ctor', 'GasConstant', None, ['IsobaricHeatCapacity', 'IsochoricHeatCapacity'], lambda a: [mk('-', a[0][0], a[1][0])], None),
    ('specific gas constant = cp - cv', 'ctor', 'SpecificGasConstant', None, ['SpecificIsobaricHeatCapacity', 'SpecificIsochoricHeatCapacity'], lambda a: [mk('-', a[0][0], a[1][0])], None),
    ('thermal diffusivity = k/(rho cp)', 'ctor', 'ThermalDiffusivity', None, ['ScalarThermalConductivity', 'MassDensity', 'SpecificIsobaricHeatCapacity'], lambda a: [d(a[0][0], m(a[1][0], a[2][0]))], None),
    ('kinematic viscosity = mu/rho', 'ctor', 'KinematicViscosity', None, ['DynamicViscosity', 'MassDensity'], lambda a: [d(a[0][0], a[1][0])], None),
    ('period = 1/frequency (constructor)', 'ctor', 'Time', None, ['Frequency'], lambda a: [d(num(1), a[0][0])], None),
    ('frequency = 1/period (constructor)', 'ctor', 'Frequency', None, ['Time'], lambda a: [d(num(1), a[0][0])], None),
    ('period = 1/frequency (Frequency::Period)', 'method', 'Frequency', 'Period', [], lambda a: [d(num(1), a[0][0])], None),
    ('frequency = 1/period (Time::Frequency)', 'method', 'Time', 'Frequency', [], lambda a: [d(num(1), a[0][0])], None),
    ('strain = sym(grad u)', 'ctor', 'Strain', None, ['DisplacementGradient'], lambda a: sym_part(a[0]), None),
    ('strain rate = sym(grad v)', 'ctor', 'StrainRate', None, ['VelocityGradient'], lambda a: sym_part(a[0]), None),
    ('thermal strain (linear) = alpha dT', 'ctor', 'ScalarStrain', None, ['LinearThermalExpansionCoefficient', 'TemperatureDifference'], lambda a: [m(a[0][0], a[1][0])], None),
    ('thermal strain (volumetric) = (beta dT/3) I', 'ctor', 'Strain', None, ['VolumetricThermalExpansionCoefficient', 'TemperatureDifference'],
     lambda a: [x for x in (lambda e: [e, num(0), num(0), e, num(0), e])(d(m(a[0][0], a[1][0]), num(3)))], None),
    ('von Mises stress', 'method', 'Stress', 'VonMises', [], lambda a: [von_mises_sq(a[0])], 'sqrt'),
    ('traction t = sigma . n', 'ctor', 'Traction', None, ['Stress', 'Direction'],
     lambda a: (lambda s, n: [mk('+', mk('+', m(s[0], n[0]), m(s[1], n[1])), m(s[2], n[2])),
                              mk('+', mk('+', m(s[1], n[0]), m(s[3], n[1])), m(s[4], n[2])),
                              mk('+', mk('+', m(s[2], n[0]), m(s[4], n[1])), m(s[5], n[2]))])(a[0], a[1]), None),
    ('static pressure as isotropic stress sigma = -p I', 'ctor', 'Stress', None, ['StaticPressure'],
     lambda a: [neg(a[0][0]), num(0), num(0), neg(a[0][0]), num(0), neg(a[0][0])], None),
]


def run(check):
    tier = check.tier
    types = ['double', 'float', 'long double']
    check.checker_cmd = 'clang++ -ast-dump=json | phqv lower | phqv symex (REAL) -> z3 -T:120 qfnra-nlsat'
    check.assume('REAL: machine arithmetic treated as exact real arithmetic ("to a few ulps" is not machine-checked; bodies are a handful of operations)')
    check.assume('formula table transcribed from the property statement (spec in phqv/props/c18.py TABLE); all scalar inputs positive, tensors arbitrary')
    check.assume('libm sqrt contract r >= 0 and r*r == x')
    tasks = []
    loaded = dict(zip(types, pmap(lambda T_: Quant(check, types=(T_,), other_types=(), conv=False, hash_=False), types)))
    for T in types:
        Q = loaded[T]
        low = Q.low
        tag = T.replace(' ', '_')
        for row in TABLE:
            title, kind, cls, member, argt, formula, mode = row
            name = 'C18.%s.%s.real.%s' % (cls, re.sub(r'\W+', '_', (member or '+'.join(argt))), tag)
            try:
                f = find_ctor(Q, cls, T, argt) if kind == 'ctor' else find_method(Q, cls, T, member)
            except Unsupported as e:
                check.error('C18: definitional relation "%s" does not exist: %s' % (title, e))
                continue
            try:
                S = SymEx(low)
                argl, pos = {}, []
                names = (['self'] if kind == 'method' else []) + param_names(f)[1 if kind == 'method' else 0:]
                vals = []
                for pn in names:
                    pt = dict(f.params)[pn]
                    n = len(replay.leaf_types(low, vt(pt)))
                    syms = [S.sym('%s.%d' % (pn, i)) for i in range(n)]
                    argl[pn] = syms
                    vals.append(syms)
                    if n == 1:
                        pos.append(cmp('<', num(0), syms[0]))
                got, sc = call_with(low, f, S, argl)
                want = formula(vals)
                if mode == 'sqrt':
                    goal = land(cmp('<=', num(0), got[0]), cmp('==', mk('*', got[0], got[0]), want[0]))
                else:
                    if len(got) != len(want):
                        raise Unsupported('result has %d components, formula %d' % (len(got), len(want)))
                    goal = conj([cmp('==', x, y) for x, y in zip(got, want)])
                t = RealTask(check, name, S, goal, assumes=pos, function=f.qualname, loc=Q.loc(f), timeout=120)
                t.ob.text = '%s: %s%s == formula, all scalar inputs > 0' % (title, f.qualname, '^2' if mode == 'sqrt' else '')
                t.meta = (f, names, formula, mode, T, low)
                tasks.append(t)
                check.under_contract(f)
            except Unsupported as e:
                check.error('%s: %s' % (name, e))
        # ---- every constructor that rearranges one of the scalar definitions (solves it for another of its quantities)
        try:
            tasks += rearrangement_tasks(check, Q, low, T, tag)
            tasks += family_tasks(check, Q, low, T, tag)
        except Unsupported as e:
            check.error('C18 rearrangements: %s' % e)
    check.extra['formulas'] = len(TABLE)
    check.log('%d REAL obligations' % len(tasks))
    for t, ob in zip(tasks, pmap(lambda t: t.run(), tasks)):
        check.add(ob)
        if ob.status == 'failed':
            adjudicate(check, t, ob)


FAMILIES = [
    ('extensive heat capacities: gamma = Cp/Cv, R = Cp - Cv',
     {'IsobaricHeatCapacity': lambda cp, cv: cp, 'IsochoricHeatCapacity': lambda cp, cv: cv,
      'GasConstant': lambda cp, cv: mk('-', cp, cv), 'HeatCapacityRatio': lambda cp, cv: d(cp, cv)}),
    ('specific heat capacities: gamma = cp/cv, R = cp - cv',
     {'SpecificIsobaricHeatCapacity': lambda cp, cv: cp, 'SpecificIsochoricHeatCapacity': lambda cp, cv: cv,
      'SpecificGasConstant': lambda cp, cv: mk('-', cp, cv), 'HeatCapacityRatio': lambda cp, cv: d(cp, cv)}),
]


def scalar_ctors(Q, low, T, cls):
    out = []
    canon = Q.canon(cls, T)
    if canon not in low.records:
        return out
    for f in Q.methods(canon):
        if f.kind != 'ctor' or len(f.params) < 2:
            continue
        ts = [template_of(low, pt) for _, pt in f.params[1:]]
        if any(t is None for t in ts) or (len(ts) == 1 and ts[0] == cls):
            continue
        if any(len(replay.leaf_types(low, vt(pt))) != 1 for _, pt in f.params[1:]):
            continue
        out.append((ts, f))
    return out


def family_tasks(check, Q, low, T, tag):
    """Two definitions tie four quantities together; every constructor among them must be consistent with both."""
    out = []
    n = 0
    for title, fam in FAMILIES:
        for cls in fam:
            for ts, f in scalar_ctors(Q, low, T, cls):
                if not all(t in fam and t != cls for t in ts) or len(set(ts)) != len(ts):
                    continue
                S = SymEx(low)
                cp, cv = S.sym('cp'), S.sym('cv')
                argl = {pn: [fam[t](cp, cv)] for pn, t in zip(param_names(f), ts)}
                got, sc = call_with(low, f, S, argl)
                goal = cmp('==', got[0], fam[cls](cp, cv))
                ass = [cmp('<', num(0), cv), cmp('<', cv, cp)] + [c for c, _ in S.domain]
                t = RealTask(check, 'C18.family.%s.%s.real.%s' % (cls, '+'.join(ts), tag), S, goal, assumes=ass, function=f.qualname, loc=Q.loc(f), timeout=120)
                t.ob.text = '%s: %s(%s) is consistent with both definitions for all cp > cv > 0' % (title, cls, ', '.join(ts))
                names = param_names(f)
                formula = (lambda fam=fam, ts=ts, cls=cls: None)
                t.meta = ('family', f, fam, ts, cls, T, low)
                out.append(t)
                check.under_contract(f)
                n += 1
    if n < 16:
        check.error('must-fire: expected >= 16 heat-capacity family constructors, found %d' % n)
    return out


def rearrangement_tasks(check, Q, low, T, tag):
    out = []
    seen = set()
    for row in TABLE:
        title, kind, cls, member, argt, formula, mode = row
        if kind != 'ctor':
            continue
        try:
            f0 = find_ctor(Q, cls, T, argt)
        except Unsupported:
            continue
        if any(len(replay.leaf_types(low, vt(pt))) != 1 for _, pt in f0.params[1:]) or len(replay.leaf_types(low, ('rec', f0.record))) != 1:
            continue
        if len(set(argt)) != len(argt):
            continue
        for yi, Y in enumerate(argt):
            need = sorted(argt[:yi] + argt[yi + 1:] + [cls])
            for ts, g in scalar_ctors(Q, low, T, Y):
                if sorted(ts) != need:
                    continue
                key = (title, g.cname)
                if key in seen:
                    continue
                seen.add(key)
                S = SymEx(low)
                syms = [S.sym('in%d' % i) for i in range(len(argt))]
                want = formula([[x] for x in syms])[0]
                ass = [cmp('<', num(0), x) for x in syms]
                if mode == 'sqrt':
                    xv = S.sym('x')
                    ass += [cmp('<', num(0), xv), cmp('==', mk('*', xv, xv), want)]
                else:
                    xv = want
                pool = {t_: syms[i] for i, t_ in enumerate(argt)}
                argl = {}
                for pn, t_ in zip(param_names(g), ts):
                    argl[pn] = [xv if t_ == cls else pool[t_]]
                got, sc = call_with(low, g, S, argl)
                goal = cmp('==', got[0], syms[yi])
                # the rearranged relation is only required where it is defined (for sums: the difference it takes is positive)
                ass += [c for c, _ in S.domain]
                t = RealTask(check, 'C18.rearranged.%s.%s.from.%s.real.%s' % (Y, '+'.join(ts), re.sub(r'\W+', '_', cls), tag), S, goal, assumes=ass,
                             function=g.qualname, loc=Q.loc(g), timeout=120)
                t.ob.text = '%s, solved for %s: %s(%s) returns the %s the definition was evaluated with, all inputs > 0' % (title, Y, Y, ', '.join(ts), Y)
                t.meta = ('rearranged', g, formula, (argt, yi, cls, ts, mode), None, T, low)
                out.append(t)
                check.under_contract(g)
    check.extra['rearranged_constructors'] = len(out)
    return out


def adjudicate_derived(check, t, ob):
    kind, g = t.meta[0], t.meta[1]
    T, low = t.meta[5], t.meta[6]
    rec = {'property': 'C18', 'obligation': ob.name, 'function': ob.function, 'source': ob.loc, 'verifier_output': ob.detail,
           'solver_model': {k: str(v) for k, v in (ob.cex or {}).items()} if isinstance(ob.cex, dict) else None, 'text': ob.text}
    confirmed = False
    try:
        model = ob.cex if isinstance(ob.cex, dict) else {}
        cands = []
        if kind == 'family':
            fam, ts, cls = t.meta[2], t.meta[3], t.meta[4]
            pairs = [(Fraction(7, 2), Fraction(5, 2)), (Fraction(1005), Fraction(718)), (Fraction(9, 4), Fraction(1, 4))]
            if model.get('cp') is not None and model.get('cv') is not None:
                pairs.insert(0, (Fraction(model['cp']), Fraction(model['cv'])))
            def ev(term_fn, cp, cv):
                tm = term_fn(num(cp), num(cv))
                return tm[1] if is_num(tm) else None
            for cp, cv in pairs:
                inputs = {pn: [ev(fam[t_], cp, cv)] for pn, t_ in zip(param_names(g), ts)}
                cands.append((inputs, ev(fam[cls], cp, cv)))
        else:
            formula, (argt, yi, cls, ts, mode) = t.meta[2], t.meta[3]
            sets = [[Fraction(3, 2), Fraction(5, 4), Fraction(7, 8), Fraction(9, 2)], [Fraction(40), Fraction(3), Fraction(1, 4), Fraction(6)]]
            if all(model.get('in%d' % i) is not None for i in range(len(argt))):
                sets.insert(0, [Fraction(model['in%d' % i]) for i in range(len(argt))])
            for vs in sets:
                vs = vs[:len(argt)]
                w = formula([[num(x)] for x in vs])[0]
                if not is_num(w):
                    continue
                x = w[1]
                if mode == 'sqrt':
                    r = Fraction(math.isqrt(x.numerator * x.denominator), x.denominator) if x >= 0 else None
                    if r is None or r * r != x:
                        x = Fraction(math.sqrt(float(x)))     # inexact: tolerance below covers it
                    else:
                        x = r
                pool = dict(zip(argt, vs))
                inputs = {pn: [x if t_ == cls else pool[t_]] for pn, t_ in zip(param_names(g), ts)}
                cands.append((inputs, vs[yi]))
        nc = replay.NativeCall(low, g)
        for inputs, want in cands:
            if want is None or any(v[0] is None for v in inputs.values()):
                continue
            cpp = nc.program(inputs, includes=default_includes(low, g))
            r, err = replay.build_and_run(cpp, os.path.join(check.work, 'replay'), 'r_' + re.sub(r'\W+', '_', ob.name)[:150])
            if err:
                rec['replay_error'] = err[:600]
                break
            got = [float(x) for x in replay.parse_out(r.stdout).get('RET', [])]
            if got and abs(got[0] - float(want)) > 1e-7 * max(1.0, abs(float(want))):
                rec.update({'cpp': cpp, 'native_output': r.stdout, 'inputs': {k2: [str(x) for x in v] for k2, v in inputs.items()},
                            'mismatch': ['the library returns %r, the definition requires %r' % (got[0], float(want))]})
                confirmed = True
                break
    except Exception as e:
        rec['replay_error'] = '%s: %s' % (type(e).__name__, e)
    rec['confirmed'] = confirmed
    check.violations.append((ob, write_replay(check, ob, rec), '' if confirmed else 'no-failing-input-found'))


def adjudicate(check, t, ob):
    if t.meta and t.meta[0] in ('family', 'rearranged'):
        return adjudicate_derived(check, t, ob)
    f, names, formula, mode, T, low = t.meta
    rec = {'property': 'C18', 'obligation': ob.name, 'function': ob.function, 'source': ob.loc, 'verifier_output': ob.detail,
           'solver_model': {k: str(v) for k, v in (ob.cex or {}).items()} if isinstance(ob.cex, dict) else None, 'text': ob.text}
    confirmed = False
    try:
        import random
        rnd = random.Random(check.seed + 18)
        model = ob.cex if isinstance(ob.cex, dict) else {}
        cands = []
        for attempt in range(6):
            inputs, vals = {}, []
            for pn in names:
                pt = dict(f.params)[pn]
                n = len(replay.leaf_types(low, vt(pt)))
                if template_of(low, pt) in ('Direction', 'PlanarDirection'):
                    v = [Fraction(3, 13), Fraction(4, 13), Fraction(12, 13)][:n]
                elif attempt == 0 and all(model.get('%s.%d' % (pn, i)) is not None for i in range(n)):
                    v = [Fraction(model['%s.%d' % (pn, i)]) for i in range(n)]       # the solver's counterexample
                else:
                    v = [Fraction(rnd.randint(1, 40), rnd.choice([1, 2, 4, 8])) for i in range(n)]
                inputs[pn] = v
                vals.append([num(x) for x in v])
            cands.append((inputs, vals))
        nc = replay.NativeCall(low, f)
        for inputs, vals in cands:
            cpp = nc.program(inputs, includes=default_includes(low, f))
            r, err = replay.build_and_run(cpp, os.path.join(check.work, 'replay'), 'r_' + re.sub(r'\W+', '_', ob.name)[:150])
            if err:
                rec['replay_error'] = err
                break
            out = replay.parse_out(r.stdout)
            got = [float(x) for x in out.get('RET', [])]
            want_terms = formula(vals)
            want = [float(x[1]) if is_num(x) else None for x in want_terms]
            if mode == 'sqrt':
                want = [math.sqrt(want[0])] if want[0] is not None and want[0] >= 0 else [None]
            # tolerance at the resolution of the numeric type; exact rational comparison where the formula is rational
            tol = {'float': 1e-5, 'double': 1e-13, 'long double': 64.0 * 2.0 ** -63}[T]
            bad = []
            for i, (g, w) in enumerate(zip(got, want)):
                gx = out.get('RET', [])[i]
                if mode != 'sqrt' and is_num(want_terms[i]) and isinstance(gx, Fraction):
                    wx = want_terms[i][1]
                    if abs(gx - wx) > Fraction(tol) * max(Fraction(1), abs(wx)):
                        bad.append('component %d: the library returns %.21g, the textbook formula gives %.21g (relative difference %.3g, tolerance %.3g at the resolution of %s)' % (
                            i, g, float(wx), float(abs(gx - wx) / max(Fraction(1), abs(wx))), tol, T))
                elif w is None or abs(g - w) > max(tol, 1e-13) * max(1.0, abs(w)):
                    bad.append('component %d: the library returns %r, the textbook formula gives %r' % (i, g, w))
            if bad or len(got) != len(want):
                rec['cpp'], rec['native_output'] = cpp, r.stdout
                rec['inputs'] = {k2: [str(x) for x in v] for k2, v in inputs.items()}
                confirmed, rec['mismatch'] = True, bad or ['output %s' % r.stdout]
                break
    except Exception as e:
        rec['replay_error'] = '%s: %s' % (type(e).__name__, e)
    rec['confirmed'] = confirmed
    check.violations.append((ob, write_replay(check, ob, rec), '' if confirmed else 'no-failing-input-found'))
