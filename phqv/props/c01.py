"""C01 - every unit converts by the factor its own symbol implies, to a few ulps."""
import os, sys, re
from fractions import Fraction
from ..core import Ob, pmap
from .. import astload, cemit
from ..cemit import MANT, round_to, hexfloat
from ..lower import Unsupported, tstr
from ..symex import mk, num, neg, cmp, land, lor, lnot, TRUE, FALSE, is_num, ite
from ..realob import SymCall, RealTask, leaves, conj
from .units_common import Units, UA
from . import dispatch

PI50 = Fraction('3.14159265358979323846264338327950288419716939937510')
U = {'float': Fraction(1, 2 ** 24), 'double': Fraction(1, 2 ** 53), 'long double': Fraction(1, 2 ** 64)}
KMAX = 8


def pipow(S, k):
    p = S.pi() if k else None
    r = num(1)
    for _ in range(abs(k)):
        r = mk('*', r, p)
    return r if k >= 0 else mk('/', num(1), r)


def affine(S, A, pik, B, x, direction):
    a = mk('*', num(A), pipow(S, pik))
    if direction == 'To':
        return mk('+', mk('*', a, x), num(B))
    return mk('/', mk('-', x, num(B)), a)


def leaf_tasks(check, units, T, quick_noisy=True):
    low = units.low
    tasks = []
    tag = T.replace(' ', '_')
    n_units = 0
    for ut in units.unit_types:
        abbr = units.abbreviations(ut)
        for direction in ('To', 'From'):
            loops = units.loop_funcs(ut, T, direction)
            for uname, _ in units.enumerators(ut):
                if uname not in loops:
                    check.error('C01: %s::%s has no row in MapOfConversions%sStandard<%s>' % (ut, uname, direction, T))
                    continue
                if uname not in abbr:
                    check.error('C01: %s::%s has no abbreviation' % (ut, uname))
                    continue
                n_units += 1
                leaf = units.leaf_of(loops[uname])
                check.under_contract(leaf)
                sym = abbr[uname]
                nalt = UA.n_alternatives(sym)
                base = 'C01.leaf.%s.%s.%s' % (ut.split('::')[1], uname, direction)
                loc = '%s:%s' % (os.path.relpath(leaf.loc[0], astload.REPO), leaf.loc[1])
                # REAL: exact affine map, for every admissible conventional value of the symbol
                alts = []
                try:
                    for alt in range(nalt):
                        A, pik, B, dims = UA.conversion(ut, sym, alt)
                        sc = SymCall(low, leaf, names={leaf.params[0][0]: 'x'})
                        x = leaves(sc.pre[leaf.params[0][0]])[0]
                        y = leaves(sc.post[leaf.params[0][0]])[0]
                        goal = cmp('==', y, affine(sc.S, A, pik, B, x, direction))
                        alts.append((sc, goal, (A, pik, B)))
                except UA.OracleGap as e:
                    check.error('oracle gap for %s "%s": %s' % (base, sym, e))
                    continue
                except Unsupported as e:
                    check.error('%s: %s' % (base, e))
                    continue
                t = AltTask(check, base + '.real.' + tag, alts, leaf.qualname, loc, sym)
                tasks.append(t)
                tasks.append(RangeTask(check, base + '.range.' + tag, alts[0][0], leaf, ut, uname, direction, T, loc))
                # NOISY: standard model of rounding, bound (k+1) u (|A x| + |B|)
                if quick_noisy:
                    tasks.append(NoisyTask(check, base + '.ulp.' + tag, low, leaf, ut, sym, nalt, direction, T, loc))
    return tasks, n_units


class AltTask:
    """Obligation discharged if the code equals the oracle for one admissible conventional value."""

    def __init__(self, check, name, alts, function, loc, sym):
        self.ob = Ob(name, 'REAL', function, loc)
        self.check, self.alts, self.sym = check, alts, sym

    def run(self):
        ob = self.ob
        last = None
        for i, (sc, goal, (A, pik, B)) in enumerate(self.alts):
            t = RealTask(self.check, ob.name + ('' if i == 0 else '.alt%d' % i), sc.S, goal, mode='REAL', inputs=['x'])
            r = t.run()
            ob.seconds += r.seconds
            ob.text = 'forall x: %s(x) == (%s * PI^%d) * x + (%s)   [unit symbol "%s"]' % (ob.function, A, pik, B, self.sym)
            if r.status == 'discharged':
                ob.status, ob.backend = 'discharged', r.backend
                return ob
            last = r
        ob.status, ob.backend, ob.detail, ob.cex = last.status, last.backend, last.detail, last.cex
        return ob


def rat_eval(t, env):
    """Exact value of an arithmetic term under an assignment of its symbols."""
    op = t[0]
    if op == 'num':
        return t[1]
    if op == 'sym':
        return env[t[1]]
    if op == 'neg':
        return -rat_eval(t[1], env)
    if op in ('+', '-', '*', '/'):
        a, b = rat_eval(t[1], env), rat_eval(t[2], env)
        return a + b if op == '+' else a - b if op == '-' else a * b if op == '*' else a / b
    raise Unsupported('term %s in a range analysis' % (op,))


class RangeTask:
    """No intermediate result overflows where the exact answer is representable: every intermediate of a leaf body is an
    affine function a_i x + b_i of the input (constants are exact rationals, pi to 50 digits); on the set of finite inputs
    whose exact result is finite, |a_i x + b_i| stays below the overflow threshold of the type (largest finite value plus
    half a unit in the last place).  Decided exactly at the end points of that interval."""

    def __init__(self, check, name, sc, leaf, ut, uname, direction, T, loc):
        self.ob = Ob(name, 'ground', leaf.qualname, loc)
        self.a = (check, sc, leaf, ut, uname, direction, T)

    def run(self):
        check, sc, leaf, ut, uname, direction, T = self.a
        ob = self.ob
        ob.backend = 'phqv symex (REAL) + exact interval end points'
        try:
            p, emin, emax = MANT[T]
            M = (2 - Fraction(2) ** (1 - p)) * Fraction(2) ** emax
            thr = (2 - Fraction(2) ** (-p)) * Fraction(2) ** emax
            pi = Fraction('3.14159265358979323846264338327950288419716939937510')
            y = leaves(sc.post[leaf.params[0][0]])[0]

            def coeff(t):
                v0, v1, v2 = (rat_eval(t, {'x': Fraction(k), 'PI': pi}) for k in (0, 1, 2))
                if v2 - v1 != v1 - v0:
                    return None
                return v1 - v0, v0
            fin = coeff(y)
            inter = [coeff(t) for t in sc.S.intermediates]
            if fin is None or any(c is None for c in inter):
                ob.status, ob.detail = 'discharged', 'not affine in the input: no range obligation generated'
                return ob
            A, B = fin
            lo, hi = -M, M
            if A > 0:
                lo, hi = max(lo, (-M - B) / A), min(hi, (M - B) / A)
            elif A < 0:
                lo, hi = max(lo, (M - B) / A), min(hi, (-M - B) / A)
            ob.text = 'for every finite %s x with |%s(x)| <= max: none of the %d intermediate results of the body overflows (each is a_i x + b_i; checked at the end points of the admissible interval)' % (T, leaf.qualname, len(inter))
            worst = None
            for k, (a, b) in enumerate(inter):
                for xe in (lo, hi):
                    v = abs(a * xe + b)
                    if v >= thr and (worst is None or v > worst[0]):
                        worst = (v, k, xe, a, b)
            if worst is None:
                ob.status = 'discharged'
                return ob
            v, k, xe, a, b = worst
            # a representable witness strictly inside the interval
            xw = round_to(xe * (1 - Fraction(1, 1024)), T)
            if abs(a * xw + b) < thr:
                xw = round_to(xe, T)
            ob.status = 'failed'
            ob.cex = {'x': xw}
            ob.detail = 'intermediate %d of the body is %s*x + %s: at x = %.6g it is %.6g, beyond the largest %s (%.6g), although the exact result %.6g is representable' % (
                k, float(a) if abs(a) < 1e300 else a, float(b) if abs(b) < 1e300 else b, float(xw) if abs(xw) < Fraction(10) ** 300 else 0.0, 0.0, T, 0.0, 0.0)
            ob.detail = 'intermediate %d of the body is (%s)*x + (%s); for x = %s it exceeds the largest finite %s although the exact result (%s)*x + (%s) is representable' % (
                k, short_frac(a), short_frac(b), hexfloat(xw, T), T, short_frac(A), short_frac(B))
        except Exception as e:
            ob.status, ob.detail = 'error', '%s: %s' % (type(e).__name__, e)
        return ob


def short_frac(fr):
    try:
        f = float(fr)
        return '%.12g' % f
    except OverflowError:
        return '%d/%d' % (fr.numerator, fr.denominator)


PI_LO = Fraction('3.1415926535897932384626433832795028841971693993751')
PI_HI = Fraction('3.1415926535897932384626433832795028841971693993752')
KULP = 8     # "a few ulps": |error| <= 8 u * scale  (4 ulps, since 1 ulp <= 2u relative)


class NoisyTask:
    """Exact IEEE emulation of every constant sub-expression in the numeric type (including the double
    rounding of long double literals), standard model (1+d) for the operations that involve x."""

    def __init__(self, check, name, low, leaf, ut, sym, nalt, direction, T, loc):
        self.ob = Ob(name, 'NOISY', leaf.qualname, loc)
        self.a = (check, low, leaf, ut, sym, nalt, direction, T)

    def run(self):
        check, low, leaf, ut, sym, nalt, direction, T = self.a
        ob = self.ob
        try:
            last = None
            for alt in range(nalt):
                A, pik, B, dims = UA.conversion(ut, sym, alt)
                sc = SymCall(low, leaf, mode='NOISY', u=U[T], names={leaf.params[0][0]: 'x'})
                S = sc.S
                x = leaves(sc.pre[leaf.params[0][0]])[0]
                y = leaves(sc.post[leaf.params[0][0]])[0]
                k = S.roundings
                pi = S.sym('PI')
                extra = [cmp('<', num(PI_LO), pi), cmp('<', pi, num(PI_HI))] if pik else []
                p = num(1)
                for _ in range(abs(pik)):
                    p = mk('*', p, pi)
                a = mk('*', num(A), p) if pik >= 0 else mk('/', num(A), p)
                exact = mk('+', mk('*', a, x), num(B)) if direction == 'To' else mk('/', mk('-', x, num(B)), a)
                ax = ite(cmp('>=', x, num(0)), x, neg(x))
                scale = mk('+', mk('*', a, ax), num(abs(B))) if direction == 'To' else mk('/', mk('+', ax, num(abs(B))), a)
                kk = KULP + S.libm_calls
                bnd = mk('*', num(kk * U[T]), scale)
                err = mk('-', y, exact)
                goal = land(cmp('<=', neg(bnd), err), cmp('<=', err, bnd))
                ob.text = '|%s(x) - exact| <= %d u (|A x| + |B|), u = 2^%d; constants evaluated by exact IEEE emulation in %s, %d symbolic roundings, %d libm pow calls' % (
                    leaf.qualname, kk, {'float': -24, 'double': -53, 'long double': -64}[T], T, k, S.libm_calls)
                t = RealTask(check, ob.name + ('' if alt == 0 else '.alt%d' % alt), S, goal, assumes=extra, mode='NOISY', inputs=['x'], timeout=60)
                r = t.run()
                ob.seconds += r.seconds
                if r.status == 'discharged':
                    ob.status, ob.backend = 'discharged', r.backend
                    ob.detail = 'symbolic roundings=%d' % k
                    return ob
                last = r
            ob.status, ob.backend, ob.detail, ob.cex = last.status, last.backend, last.detail, last.cex
        except Exception as e:
            ob.status, ob.detail = 'error', '%s: %s' % (type(e).__name__, e)
        return ob


def pi_obligations(check, units):
    """Ground: |Pi<T> - pi| <= u_T * pi against a 50-digit pi."""
    from ..cemit import round_to
    a = units.ast
    seen = 0
    for o in a.walk():
        if o.get('kind') == 'VarTemplateSpecializationDecl' and o.get('name') == 'Pi' and a.byid.get(o['id']) is o:
            lits = [x for x in a.walk(o) if x.get('kind') == 'FloatingLiteral']
            if not lits:
                continue
            T = (o['type'].get('desugaredQualType') or o['type']['qualType']).replace('const ', '')
            if T not in U:
                continue
            txt = a.source_text(lits[0]['range']['begin'])
            import re
            m = re.match(r'^([0-9.eE+-]+?)([fFlL]?)$', txt)
            val = round_to(Fraction(m.group(1)), T)
            ob = Ob('C01.pi.%s' % T.replace(' ', '_'), 'ground', 'PhQ::Pi<%s>' % T, 'include/PhQ/Base.hpp:%s' % lits[0]['range']['begin'].get('line'))
            ob.text = '|Pi<%s> (= %s rounded to %s) - pi| <= 2^-%d * pi' % (T, m.group(1), T, {'float': 24, 'double': 53, 'long double': 64}[T])
            ob.backend = 'exact rational arithmetic'
            ob.status = 'discharged' if abs(val - PI50) <= U[T] * PI50 else 'failed'
            if ob.status == 'failed':
                ob.detail = 'Pi<%s> = %s differs from pi by %s' % (T, float(val), float(abs(val - PI50)))
            check.add(ob)
            seen += 1
    if seen != 3:
        check.error('must-fire: expected 3 Pi<T> specialisations, found %d' % seen)


def run(check):
    tier = check.tier
    types = ['double', 'float', 'long double']
    check.checker_cmd = 'clang++ -ast-dump=json | phqv lower | phqv symex (REAL / NOISY) -> z3 -T:60 qfnra-nlsat ; goto-cc | goto-instrument --dfcc --enforce-contract ConvertInPlace --replace-call-with-contract Conversions<..>::*Standard | cbmc'
    check.assume('REAL: machine arithmetic treated as exact real arithmetic; PI is one symbolic constant with 3.14159265358979323846 < PI < 3.14159265358979323847 used by code and oracle alike')
    check.assume('NOISY: standard model of rounding fl(a op b) = (a op b)(1+d), |d| <= u (no underflow/overflow), literals not representable in T carry one (1+d); bound (k+1) u (|A x| + |B|) with k = number of roundings in the body')
    check.assume('unit oracle: spec/unit_atoms.py (SI Brochure 2019, NIST SP 811) - hand-written, independent of the constants in the headers; cal and BTU admit the listed conventional values')
    units = Units(check, types=types, shapes=False)
    check.log('AST loaded: %d unit types' % len(units.unit_types))
    nunits = sum(len(units.enumerators(ut)) for ut in units.unit_types)
    check.extra['units_seen'] = nunits
    check.extra['unit_types_seen'] = len(units.unit_types)
    if nunits < 500 or len(units.unit_types) < 37:
        check.error('must-fire: expected >= 500 units in >= 37 unit types, found %d in %d' % (nunits, len(units.unit_types)))
    pi_obligations(check, units)
    tasks = []
    for T in types:
        t, n = leaf_tasks(check, units, T, quick_noisy=True)
        tasks += t
        check.log('%s: %d leaf bodies, %d obligations' % (T, n, len(t)))
    obs = pmap(lambda t: t.run(), tasks)
    # a REAL (exact rational) failure is only a sufficient-condition failure: the property asks for
    # "within a few ulps"; decide by the NOISY obligation in all three numeric types
    # the verdict for numeric type T is the NOISY obligation of T (exact IEEE emulation of the constants in T): a constant that
    # is not the oracle's exact rational but is within the bound in T leaves the conversions of T unchanged
    status_by_name = {ob.name: ob.status for ob in obs}
    for t, ob in zip(tasks, obs):
        if ob.status == 'failed' and '.real.' in ob.name and isinstance(t, AltTask):
            ulp_name = ob.name.replace('.real.', '.ulp.')
            if status_by_name.get(ulp_name) == 'discharged':
                ob.status = 'discharged'
                ob.detail = 'not the exact rational of the oracle, but within %d u of it in this numeric type (%s discharged)' % (KULP, ulp_name)
    for ob in obs:
        check.add(ob)
    # dispatch: ConvertInPlace(x, from, to) == From_to(To_from(x)) for all enumerators in range
    for T in types:
        if T == 'long double':
            continue
        dispatch.scalar_dispatch(check, units, T, 'C01')
    # composition lemma over leaf contracts (symbolic positive factors)
    from ..symex import SymEx
    S = SymEx(units.low)
    x, af, bf, at, bt = [S.sym(n) for n in ('x', 'A_from', 'B_from', 'A_to', 'B_to')]
    std = mk('+', mk('*', af, x), bf)
    comp = mk('/', mk('-', std, bt), at)
    want = mk('/', mk('-', mk('+', mk('*', af, x), bf), bt), at)
    t = RealTask(check, 'C01.pair.composition', S, cmp('==', comp, want), assumes=[cmp('<', num(0), af), cmp('<', num(0), at)], mode='REAL')
    t.ob.text = 'From_to(To_from(x)) == (A_from x + B_from - B_to)/A_to for the leaf contracts (all ordered pairs follow with the dispatch obligations)'
    check.add(t.run())
    # failures
    for t, ob in zip(tasks, obs):
        if ob.status == 'failed':
            adjudicate(check, units, t, ob)


def adjudicate_range(check, units, ob, utn, uname, direction, T):
    """Native: convert the witness; the exact result is finite, so an infinite library result confirms the overflow."""
    import re
    from .. import replay
    from ..ieeeob import write_replay
    ut = 'Unit::' + utn
    std = units.standard(ut)[1]
    frm, to = (uname, std) if direction == 'To' else (std, uname)
    x = ob.cex['x']
    cpp = ('#include <PhQ/Unit/%s.hpp>\n#include <cstdio>\n#include <cmath>\nint main() {\n  const %s x = %s;\n'
           '  const %s y = PhQ::Convert<PhQ::Unit::%s, %s>(x, PhQ::Unit::%s::%s, PhQ::Unit::%s::%s);\n'
           '  const %s z = PhQ::Convert<PhQ::Unit::%s, %s>(-x, PhQ::Unit::%s::%s, PhQ::Unit::%s::%s);\n'
           '  std::printf("x = %%La\\nConvert(x) = %%Lg\\nConvert(-x) = %%Lg\\n", (long double)x, (long double)y, (long double)z);\n'
           '  if (!std::isfinite(y) || !std::isfinite(z)) { std::printf("MISMATCH the library returns a non-finite value for a finite input whose exact conversion is representable\\n"); return 1; }\n'
           '  return 0;\n}\n') % (utn, T, hexfloat(x, T), T, utn, T, utn, frm, utn, to, T, utn, T, utn, frm, utn, to)
    rec = {'property': 'C01', 'obligation': ob.name, 'function': ob.function, 'source': ob.loc, 'verifier_output': ob.detail, 'cpp': cpp,
           'inputs': {'x': hexfloat(x, T)}, 'confirmed': False}
    r, err = replay.build_and_run(cpp, os.path.join(check.work, 'replay'), 'r_' + re.sub(r'\W+', '_', ob.name))
    if err:
        rec['replay_error'] = err[:600]
    else:
        rec['native_output'] = r.stdout
        if 'MISMATCH' in r.stdout:
            rec['confirmed'], rec['mismatch'] = True, r.stdout.strip().split('\n')
    check.violations.append((ob, write_replay(check, ob, rec), '' if rec['confirmed'] else 'no-failing-input-found'))


def adjudicate(check, units, t, ob):
    """Replay a failed leaf obligation on the real code: convert a few values natively through the public
    API and compare with the oracle's exact affine map."""
    import json, re
    from .. import replay
    m = re.match(r'C01\.leaf\.(\w+)\.(\w+)\.(To|From)\.', ob.name)
    utn, uname, direction = m.group(1), m.group(2), m.group(3)
    ut = 'Unit::' + utn
    T = ob.name.rsplit('.', 1)[1].replace('_', ' ')
    if T not in U:
        T = 'double'
    sym = units.abbreviations(ut)[uname]
    std = units.standard(ut)[1]
    A, pik, B, dims = UA.conversion(ut, sym, 0)
    alts = [UA.conversion(ut, sym, a) for a in range(UA.n_alternatives(sym))]
    xs = ['1', '3', '-7', '1000', '0.001', '123456.789']
    if '.range.' in ob.name and isinstance(ob.cex, dict) and 'x' in ob.cex:
        return adjudicate_range(check, units, ob, utn, uname, direction, T)
    suf = {'float': 'f', 'double': '', 'long double': 'L'}[T]
    fmt = '%La' if T == 'long double' else '%a'
    cast = '' if T == 'long double' else '(double)'
    frm, to = (uname, std) if direction == 'To' else (std, uname)
    body = ['#include <PhQ/Unit/%s.hpp>' % utn, '#include <cstdio>', 'int main(){']
    for xv in xs:
        body.append('  { %s x = %s%s; %s y = PhQ::Convert<PhQ::Unit::%s, %s>(x, PhQ::Unit::%s::%s, PhQ::Unit::%s::%s); std::printf("%%s %s %s\\n", "%s", %sx, %sy); }' % (
            T, xv, suf, T, utn, T, utn, frm, utn, to, fmt, fmt, xv, cast, cast))
    body.append('  return 0; }')
    cpp = '\n'.join(body) + '\n'
    r, err = replay.build_and_run(cpp, os.path.join(check.work, 'replay'), 'r_' + re.sub(r'\W+', '_', ob.name))
    rec = {'property': 'C01', 'obligation': ob.name, 'function': ob.function, 'source': ob.loc, 'unit_symbol': sym,
           'oracle': {'A': str(A), 'pi_power': pik, 'B': str(B)}, 'verifier_output': ob.detail,
           'solver_model': {k: str(v) for k, v in (ob.cex or {}).items()} if isinstance(ob.cex, dict) else None}
    confirmed = False
    if err:
        rec['replay_error'] = err
    else:
        rec['cpp'] = cpp
        rec['native_output'] = r.stdout
        bad = []
        for line in r.stdout.strip().split('\n'):
            ws = line.split()
            x, y = replay.num(ws[1]), replay.num(ws[2])
            ok_any = False
            for (A2, pik2, B2, _) in alts:
                a = A2 * PI50 ** pik2
                exact = a * x + B2 if direction == 'To' else (x - B2) / a
                scale = abs(a * x) + abs(B2) if direction == 'To' else (abs(x) + abs(B2)) / a
                if abs(y - exact) <= 16 * U[T] * scale:
                    ok_any = True
            if not ok_any:
                bad.append('Convert(%s, %s -> %s) = %s but the unit symbol "%s" implies %s' % (ws[0], frm, to, float(y), sym, float(exact)))
        if bad:
            confirmed = True
            rec['mismatch'] = bad
            rec['inputs'] = xs
    rec['confirmed'] = confirmed
    d = check.replay_dir
    os.makedirs(d, exist_ok=True)
    path = os.path.join(d, re.sub(r'[^\w.-]+', '_', ob.name) + '.replay.json')
    json.dump(rec, open(path, 'w'), indent=1)
    check.violations.append((ob, path, '' if confirmed else 'no-failing-input-found'))
