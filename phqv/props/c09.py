"""C09 - vectors and tensors implement Euclidean tensor algebra."""
import os, sys, random
from fractions import Fraction
from ..core import Ob, pmap
from .. import astload, lower, tu, cemit, cbmc, replay
from ..lower import Unsupported, tstr
from ..symex import (mk, num, neg, cmp, land, lor, lnot, TRUE, FALSE, is_num, ite)
from ..realob import SymCall, RealTask, leaves, conj
sys.path.insert(0, os.path.join(os.path.dirname(__file__), '..', '..'))
from spec import tensor_algebra as TA

VEC = {'PlanarVector': 'PlanarVector', 'Vector': 'Vector', 'Direction': 'Vector', 'PlanarDirection': 'PlanarVector'}
DYAD = {'SymmetricDyad': 'SymmetricDyad', 'Dyad': 'Dyad'}
NLEAVES = {'PlanarVector': 2, 'Vector': 3, 'SymmetricDyad': 6, 'Dyad': 9, 'num': 1}
DYAD_NAMES = ['xx', 'xy', 'xz', 'yx', 'yy', 'yz', 'zx', 'zy', 'zz']


def shape_of(low, t):
    if t[0] in ('ptr', 'ref'):
        t = t[1]
    if t[0] == 'f':
        return 'num'
    if t[0] == 'bool':
        return 'bool'
    if t[0] == 'opt':
        return ('opt', shape_of(low, t[1]))
    if t[0] == 'rec':
        r = low.record(t[1])
        if r.template in VEC:
            return VEC[r.template]
        if r.template in DYAD:
            return DYAD[r.template]
    if t[0] == 'sarr':
        return ('array', t[2])
    return None


def emb(shape, lv):
    if shape in ('PlanarVector', 'Vector'):
        return TA.embed_vector(shape, lv)
    if shape in ('SymmetricDyad', 'Dyad'):
        return TA.embed_dyad(shape, lv)
    if shape == 'num':
        return lv[0]
    raise KeyError(shape)


def flat(E):
    if isinstance(E, list) and E and isinstance(E[0], list):
        return [x for row in E for x in row]
    if isinstance(E, list):
        return list(E)
    return [E]


class View:
    """Flat, shape-tagged view of one call: used with symbolic leaves (proof) and numeric leaves (replay)."""

    def __init__(self, low, f):
        self.f = f
        self.low = low
        self.names = [pn for pn, _ in f.params]
        self.shapes = {pn: shape_of(low, pt) for pn, pt in f.params}
        self.ret_shape = shape_of(low, f.ret) if f.ret != ('void',) else None
        self.pre, self.post, self.ret = {}, {}, None
        self.facts = []   # assumptions (library contracts) for symbolic use

    @classmethod
    def from_symcall(cls, low, f, sc):
        v = cls(low, f)
        for pn in v.names:
            v.pre[pn] = leaves(sc.pre[pn])
            v.post[pn] = leaves(sc.post[pn]) if pn in sc.post else v.pre[pn]
        if sc.ret is not None:
            if isinstance(v.ret_shape, tuple) and v.ret_shape[0] == 'opt':
                v.ret = (sc.ret['has'], leaves(sc.ret['val']))
            else:
                v.ret = leaves(sc.ret)
        return v

    def E(self, pn, when='pre'):
        return emb(self.shapes[pn], (self.pre if when == 'pre' else self.post)[pn])

    def R(self):
        return emb(self.ret_shape, self.ret)


# ---------------------------------------------------------------------------------------------------
# handlers: return list of goals; a goal is ('eq', [actual...], [expected...]) or ('bool', term)
def h_magsq(v):
    a = v.E('self')
    return [('eq', v.ret, [TA.dot(a, a)])]


def h_mag(v):
    a = v.E('self')
    r = v.ret[0]
    return [('bool', cmp('>=', r, num(0))), ('eq', [mk('*', r, r)], [TA.dot(a, a)])]


def other(v):
    return [n for n in v.names if n != 'self'][0]


def h_dot(v):
    return [('eq', v.ret, [TA.dot(v.E('self'), v.E(other(v)))])]


def h_cross(v):
    return [('eq', flat(v.R()), TA.cross(v.E('self'), v.E(other(v))))]


def h_dyadic(v):
    return [('eq', flat(v.R()), flat(TA.dyadic(v.E('self'), v.E(other(v)))))]


def h_trace(v):
    return [('eq', v.ret, [TA.trace(v.E('self'))])]


def h_det(v):
    return [('eq', v.ret, [TA.det(v.E('self'))])]


def h_transpose(v):
    return [('eq', flat(v.R()), flat(TA.transpose(v.E('self'))))]


def h_cofactors(v):
    return [('eq', flat(v.R()), flat(TA.cofactors(v.E('self'))))]


def h_adjugate(v):
    return [('eq', flat(v.R()), flat(TA.adjugate(v.E('self'))))]


def h_adj_lemma(v):
    A = v.E('self')
    d = TA.det(A)
    return [('eq', flat(TA.matmul(v.R(), A)), flat(TA.scale(TA.identity(), d)))]


def h_inverse(v):
    A = v.E('self')
    has, lv = v.ret
    d = TA.det(A)
    goals = [('bool', lor(land(has, cmp('!=', d, num(0))), land(lnot(has), cmp('==', d, num(0)))))]
    if has == FALSE:
        return goals
    Ai = emb(v.ret_shape[1], lv)
    I = flat(TA.identity())
    goals.append(('eq', flat(TA.matmul(Ai, A)), I, has))
    goals.append(('eq', flat(TA.matmul(A, Ai)), I, has))
    return goals


def h_issym(v):
    A = v.E('self')
    want = land(cmp('==', A[0][1], A[1][0]), land(cmp('==', A[0][2], A[2][0]), cmp('==', A[1][2], A[2][1])))
    r = v.ret[0]
    rb = r if r[0] in ('true', 'false', 'and', 'or', 'not', '==', '<', '<=') or (r[0] == 'ite' and r[2][0] != 'num') else cmp('!=', r, num(0))
    return [('bool', lor(land(rb, want), land(lnot(rb), lnot(want))))]


def h_accessor(idx):
    def h(v):
        E = v.E('self')
        x = E[idx[0]][idx[1]] if len(idx) == 2 else E[idx[0]]
        return [('eq', v.ret, [x])]
    return h


def h_ctor_embed(v):
    o = other(v)
    so, ss = v.shapes[o], v.shapes['self']
    Eo = v.E(o)
    if ss == 'PlanarVector' and so == 'Vector':
        return [('eq', v.post['self'], [Eo[0], Eo[1]])]   # projection onto the XY plane
    return [('eq', flat(v.E('self', 'post')), flat(Eo))]


def h_ctor_components(v):
    ss = v.shapes['self']
    E = v.E('self', 'post')
    goals = []
    for pn in v.names[1:]:
        idx = ['xyz'.index(c) for c in pn.rstrip('_')] if all(c in 'xyz' for c in pn.rstrip('_')) else None
        if idx is None or len(idx) not in (1, 2):
            raise Unsupported('component parameter name %s' % pn)
        x = E[idx[0]][idx[1]] if len(idx) == 2 else E[idx[0]]
        goals.append(('eq', [x], v.pre[pn]))
    return goals


def h_compound(op):
    def h(v):
        o = other(v)
        so = v.shapes[o]
        if so == 'num':
            return [('eq', v.post['self'], [mk(op, x, v.pre[o][0]) for x in v.pre['self']])]
        return [('eq', v.post['self'], [mk(op, x, y) for x, y in zip(v.pre['self'], v.pre[o])])]
    return h


def h_binop(op):
    def h(v):
        a, b = v.names
        sa, sb = v.shapes[a], v.shapes[b]
        R = flat(v.R())
        if op in ('+', '-'):
            return [('eq', R, flat(TA.madd(v.E(a), v.E(b), op)))]
        if op == '/':
            if sb != 'num':
                raise Unsupported('division by %s' % sb)
            return [('eq', R, flat(TA.scale(v.E(a), v.pre[b][0], '/')))]
        # multiplication by shapes
        if sb == 'num':
            return [('eq', R, flat(TA.scale(v.E(a), v.pre[b][0])))]
        if sa == 'num':
            return [('eq', R, flat(TA.scale(v.E(b), v.pre[a][0])))]
        if sa in DYAD.values() and sb in DYAD.values():
            return [('eq', R, flat(TA.matmul(v.E(a), v.E(b))))]
        if sa in DYAD.values() and sb in ('Vector', 'PlanarVector'):
            return [('eq', R, flat(TA.matvec(v.E(a), v.E(b))))]
        raise Unsupported('product %s * %s' % (sa, sb))
    return h


METHOD_SPECS = {
    'MagnitudeSquared': h_magsq, 'Magnitude': h_mag, 'Dot': h_dot, 'Cross': h_cross, 'Dyadic': h_dyadic,
    'Trace': h_trace, 'Determinant': h_det, 'Transpose': h_transpose, 'Cofactors': h_cofactors,
    'Adjugate': h_adjugate, 'Inverse': h_inverse, 'IsSymmetric': h_issym,
    'operator+=': h_compound('+'), 'operator-=': h_compound('-'), 'operator*=': h_compound('*'),
    'operator/=': h_compound('/'),
}
for _i, _c in enumerate('xyz'):
    METHOD_SPECS[_c] = h_accessor((_i,))
for _n in DYAD_NAMES:
    METHOD_SPECS[_n] = h_accessor(('xyz'.index(_n[0]), 'xyz'.index(_n[1])))
FREE_SPECS = {'operator+': h_binop('+'), 'operator-': h_binop('-'), 'operator*': h_binop('*'), 'operator/': h_binop('/')}

# members of the tensor classes that are not tensor-algebra operations (covered by C04/C14/C15/C16/C17)
NOT_C09 = {'Zero', 'Print', 'JSON', 'XML', 'YAML', 'operator=', 'Direction', 'PlanarDirection', 'Angle'}


def classify(low, f):
    """-> (handler, label) or None if f is not a C09 function, raises Unsupported if unclassifiable."""
    name = f.node.get('name')
    if f.kind == 'method':
        if name in METHOD_SPECS:
            return METHOD_SPECS[name], name
        if name in NOT_C09 or name.startswith('Mutable_') or name.startswith('Set_') or '_' in name:
            return None
        raise Unsupported('unclassified member %s' % f.qualname)
    if f.kind == 'ctor':
        ps = f.params[1:]
        shapes = [shape_of(low, pt) for _, pt in ps]
        if len(ps) == 1 and shapes[0] in NLEAVES and shapes[0] != 'num':
            if tstr(ps[0][1][1]) == f.record:
                return None     # copy
            r_self = low.record(f.record).template
            r_o = low.record(ps[0][1][1][1]).template
            rec_t = low.record(f.record).targs
            oth_t = low.record(ps[0][1][1][1]).targs
            if rec_t != oth_t:
                return None     # converting constructor between numeric types: C16
            return h_ctor_embed, 'ctor(%s)' % r_o
        if ps and all(s == 'num' for s in shapes) and len(ps) == NLEAVES.get(VEC.get(low.record(f.record).template) or DYAD.get(low.record(f.record).template), -1):
            return h_ctor_components, 'ctor(components)'
        return None
    if f.kind == 'func' and name in FREE_SPECS:
        return FREE_SPECS[name], name
    return None


def targets(low, T):
    """All functions of the tensor classes instantiated for numeric type T that C09 speaks about."""
    out, skipped = [], []
    a = low.ast
    for cls in tu.TENSORS:
        canon = '%s<%s>' % (cls, T)
        r = low.record(canon)
        for did, m in r.methods.items():
            if not low.has_body(m):
                continue
            try:
                f = low.lower_func(m)
                c = classify(low, f)
            except Unsupported as e:
                skipped.append((canon + '::' + m.get('name', '?'), str(e)))
                continue
            if c:
                out.append((f, c[0], c[1]))
    for o in a.walk():
        if o.get('kind') == 'FunctionDecl' and o.get('name') in FREE_SPECS and low.has_body(o) and \
                any(c.get('kind') == 'TemplateArgument' for c in o.get('inner', ())):
            par = a.up(o)
            if not (par and par.get('kind') == 'FunctionTemplateDecl' and (a.up(par) or {}).get('name') == 'PhQ'):
                continue
            if low._in_use_ns(o):
                continue
            try:
                f = low.lower_func(o)
            except Unsupported as e:
                skipped.append((o.get('name'), str(e)))
                continue
            shp = [shape_of(low, pt) for _, pt in f.params]
            if not all(s in NLEAVES for s in shp) or all(s == 'num' for s in shp):
                continue
            if not any(tstr(pt[1] if pt[0] == 'ptr' else pt).endswith('<%s>' % T) or
                       tstr(pt[1] if pt[0] == 'ptr' else pt) == T for _, pt in f.params):
                continue
            if not all((tstr(pt[1] if pt[0] == 'ptr' else pt).endswith('<%s>' % T) or tstr(pt[1] if pt[0] == 'ptr' else pt) == T) for _, pt in f.params):
                continue
            out.append((f, FREE_SPECS[o['name']], o['name']))
    return out, skipped


def sig(low, f):
    return '(%s)' % ', '.join(str(shape_of(low, pt)) for pn, pt in f.params if pn != 'self')


def load(check, T, tag):
    wd = os.path.join(check.work, 'ast')
    pA = astload.dump(tu.tensors_tu((T,), ()), wd, 'tensorsA_' + tag)
    a = astload.Ast().load(pA)
    ft = tu.free_operator_templates(a)
    others = [x for x in ('float', 'double', 'long double') if x != T][:1]
    pB = astload.dump(tu.tensors_tu((T,), tuple(others), ft), wd, 'tensorsB_' + tag)
    a = astload.Ast().load(pB)
    os.remove(pA)
    os.remove(pB)
    return lower.Lowerer(a), len(ft)


def goals_to_tasks(check, base, low, f, S, goals, view, label):
    tasks = []
    loc = '%s:%s' % (os.path.relpath(f.loc[0], astload.REPO), f.loc[1])
    for gi, g in enumerate(goals):
        if g[0] == 'eq':
            guard = g[3] if len(g) > 3 else TRUE
            goal = conj([cmp('==', x, y) for x, y in zip(g[1], g[2])])
            if len(g[1]) != len(g[2]):
                raise Unsupported('shape mismatch in %s' % base)
            if guard != TRUE:
                goal = lor(lnot(guard), goal)
        else:
            goal = g[1]
        nm = '%s.%d' % (base, gi) if len(goals) > 1 else base
        t = RealTask(check, nm, S, goal, function=f.qualname, loc=loc, mode='REAL')
        t.meta = (f, label, view)
        tasks.append(t)
    return tasks


def run(check):
    tier = check.tier
    types = ['double', 'float', 'long double']
    check.checker_cmd = 'clang++ -ast-dump=json | phqv lower | phqv symex -> z3 -T:60 (check-sat-using (then simplify solve-eqs qfnra-nlsat)); goto-cc | goto-instrument --dfcc | cbmc --cvc5'
    check.assume('REAL mode: IEEE arithmetic of the tensor kernels treated as exact real arithmetic (identities hold for all reals; rounding is bounded separately by the rounding count)')
    check.assume('libm sqrt: contract r >= 0 and r*r == x (correct rounding assumed)')
    tasks = []
    lows = {}
    for T in types:
        tag = T.replace(' ', '_')
        low, nft = load(check, T, tag)
        lows[T] = low
        tg, skipped = targets(low, T)
        check.log('%s: %d tensor functions under contract, %d free operator templates, %d skipped' % (T, len(tg), nft, len(skipped)))
        if len(tg) < 100:
            check.error('must-fire: expected >= 100 tensor functions for %s, found %d' % (T, len(tg)))
        for nm, why in skipped:
            if 'string' in why or 'ostream' in why:
                check.outside.append('%s: %s' % (nm, why))
            else:
                check.error('cannot translate %s: %s' % (nm, why))
        seen = {}
        for f, h, label in tg:
            base = 'C09.%s.%s%s.real.%s' % (low.record(f.record).template if f.record else 'free', label, sig(low, f), tag)
            seen[base] = seen.get(base, 0) + 1
            if seen[base] > 1:
                base += '#%d' % seen[base]
            try:
                sc = SymCall(low, f)
                v = View.from_symcall(low, f, sc)
                goals = h(v)
                if h is h_adjugate:
                    goals += h_adj_lemma(v)
                check.under_contract(f)
                tasks += goals_to_tasks(check, base, low, f, sc.S, goals, v, label)
                rc = rounding_count(f, low)
            except Unsupported as e:
                check.error('%s: %s' % (base, e))
    check.log('%d REAL obligations' % len(tasks))
    obs = pmap(lambda t: t.run(), tasks)
    for t, ob in zip(tasks, obs):
        check.add(ob)
    # vacuity canary: a deliberately wrong goal must be refuted by the same pipeline
    canary(check, lows[types[0]], types[0])
    ieee_obligations(check, lows, types)
    # adjudicate failures
    for t in tasks:
        if t.ob.status == 'failed':
            adjudicate(check, lows, t)


def rounding_count(f, low):
    return None


def canary(check, low, T):
    r = low.record('Vector<%s>' % T)
    f = [low.lower_func(m) for m in r.methods.values() if m.get('name') == 'Dot' and low.has_body(m) and 'Vector<' in m['type']['qualType']][0]
    sc = SymCall(low, f)
    v = View.from_symcall(low, f, sc)
    a, b = v.E('self'), v.E('other')
    wrong = cmp('==', v.ret[0], TA.add(TA.mul(a[0], b[0]), TA.mul(a[1], b[1]), TA.mul(a[2], b[0])))
    t = RealTask(check, 'C09.canary.must-fail', sc.S, wrong, mode='REAL')
    ob = t.run()
    if ob.status != 'failed':
        check.error('vacuity canary: a wrong specification of Vector::Dot was not refuted (%s)' % ob.status)
    else:
        check.extra['canaries_ok'] = check.extra.get('canaries_ok', 0) + 1


# ---------------------------------------------------------------------------------------------------
# IEEE obligations (CBMC contracts on the emitted C)
def acc(prefix, shape):
    fld = {'PlanarVector': 'x_y_', 'Vector': 'x_y_z_', 'SymmetricDyad': 'xx_xy_xz_yy_yz_zz_', 'Dyad': 'xx_xy_xz_yx_yy_yz_zx_zy_zz_'}[shape]
    return ['%s.%s.e[%d]' % (prefix, fld, i) for i in range(NLEAVES[shape])]


def ieee_obligations(check, lows, types):
    from ..ieeeob import IeeeJob, cleaves, isnan_fn
    jobs = []
    for T in types:
        if T == 'long double':
            check.notes.append('IEEE obligations for long double are not run: CBMC models long double as binary128, not x87 80-bit')
            continue
        low = lows[T]
        tag = T.replace(' ', '_')
        for cls in ('Dyad', 'SymmetricDyad'):
            canon = '%s<%s>' % (cls, T)
            r = low.record(canon)
            byname = {}
            for did, m in r.methods.items():
                if low.has_body(m) and len([c for c in m.get('inner', ()) if c.get('kind') == 'ParmVarDecl']) == 0:
                    byname[m['name']] = low.lower_func(m)
            inv, det, adj = byname['Inverse'], byname['Determinant'], byname['Adjugate']
            n = NLEAVES[cls]
            from ..ieeeob import PureAbstraction
            pd, pa = PureAbstraction(low, det), PureAbstraction(low, adj)
            sl = acc('(*self)', cls)
            udet = pd.app(0, sl)
            ens = ['__CPROVER_return_value.has == (%s != 0)' % udet]
            ra = acc('__CPROVER_return_value.val', cls)
            for i in range(n):
                ens.append('!__CPROVER_return_value.has || %s == %s / %s || %s(%s)' % (ra[i], pa.app(i, sl), udet, isnan_fn(T), ra[i]))

            def pred(w, out, run, n=n, T=T):
                rv = out.get('RET', [])
                det_v = out.get('EXTRA DET', [None])[0]
                adj_v = out.get('EXTRA ADJ', [])
                bad = []
                if det_v is None or not rv:
                    return []
                has = rv[0] == 1
                if has != (float(det_v) != 0.0):
                    bad.append('Inverse().has_value() == %s but Determinant() == %s' % (has, det_v))
                return bad
            sz = 'sizeof(%s)' % T
            extra = ['dump("EXTRA DET", a_self.Determinant(), "", 1, %s);' % sz]
            big = '0x1p100' + ('f' if T == 'float' else '')
            req = ['%s >= -%s && %s <= %s' % (x, big, x, big) for x in acc('(*self)', cls)]
            j = IeeeJob(check, 'C09.%s.Inverse.guard.ieee.%s' % (cls, tag), low, inv, ens, requires=req,
                        replace=[det.cname, adj.cname], replace_contracts={det.cname: pd.clauses(), adj.cname: pa.clauses()},
                        text_extra=pd.decls() + pa.decls(),
                        backend=['cvc5', 'sat'], timeout=150, predicate=pred, includes=tu.TENSOR_HEADERS, replay_extra=extra)
            check.assume('modular step: Determinant()/Adjugate() are replaced at their call sites by contracts over uninterpreted functions of the stored components (their bodies are verified separately by the REAL obligations)')

            def gen_scaled(rnd, lt):
                # well-conditioned tensors over many magnitudes: a guard that is not "determinant != 0" shows at the extremes
                if lt[0] != 'f':
                    return 0
                if not hasattr(rnd, '_phqv_scale') or rnd.random() < 0.12:
                    rnd._phqv_scale = Fraction(2) ** rnd.choice([-40, -24, -12, 0, 12, 24])
                return Fraction(rnd.choice([-7, -5, -3, -2, -1, 1, 2, 3, 4, 5, 7, 8])) * rnd._phqv_scale
            j.gen = gen_scaled
            j.search_tries = 24
            jobs.append(j)
            check.under_contract(inv)
    for j, ob in zip(jobs, pmap(lambda j: j.run(), jobs)):
        check.add(ob)
        if ob.status == 'failed':
            path, tail, harmless = j.adjudicate()
            check.violations.append((ob, path, tail))
    check.assume('IEEE mode: strict IEEE-754 binary32/binary64 round-to-nearest as modelled by CBMC; no -ffast-math, no FMA contraction')


def keep_replay(check, path):
    d = check.replay_dir
    os.makedirs(d, exist_ok=True)
    dst = os.path.join(d, os.path.basename(path))
    import shutil
    shutil.copy(path, dst)
    return dst


# ---------------------------------------------------------------------------------------------------
# adjudication of a failed REAL obligation: replay against the real code
def adjudicate(check, lows, t):
    import json
    f, label, view = t.meta
    ob = t.ob
    T = [k for k, l in lows.items() if f in l.funcs.values()][0]
    low = lows[T]
    h = classify(low, f)[0]
    rnd = random.Random(check.seed)
    tries = []
    # candidate inputs: solver model (rounded), then seeded small-integer vectors
    model = ob.cex or {}
    def from_model():
        vals = {}
        for pn, pt in f.params:
            if f.kind == 'ctor' and pn == 'self':
                continue
            nl = len(view.pre[pn])
            lv = []
            for l in view.pre[pn]:
                x = model.get(l[1]) if isinstance(l, tuple) and l[0] == 'sym' else None
                lv.append(Fraction(x) if x is not None else Fraction(0))
            vals[pn] = lv
        return vals
    tries.append(('model', from_model()))
    for k in range(24):
        vals = {}
        for pn, pt in f.params:
            if f.kind == 'ctor' and pn == 'self':
                continue
            vals[pn] = [Fraction(rnd.choice([-7, -5, -3, -2, -1, 1, 2, 3, 4, 5, 7, 8])) for _ in view.pre[pn]]
        tries.append(('seeded-integers-%d' % k, vals))
    nc = replay.NativeCall(low, f)
    found = None
    log = []
    for tag, vals in tries:
        try:
            cpp = nc.program(vals, includes=tu.TENSOR_HEADERS)
        except Unsupported as e:
            log.append('replay generation failed: %s' % e)
            break
        r, err = replay.build_and_run(cpp, os.path.join(check.work, 'replay'), 'r_%s' % abs(hash((ob.name, tag))))
        if err:
            log.append(err)
            break
        out = replay.parse_out(r.stdout)
        nv = View(low, f)
        ok = True
        for pn in nv.names:
            if f.kind == 'ctor' and pn == 'self':
                nv.pre[pn] = [num(0)] * len(view.pre[pn])
                nv.post[pn] = [tonum(x) for x in out.get('RET', [])]
                continue
            nv.pre[pn] = [num(x) for x in vals[pn]]
            nv.post[pn] = [tonum(x) for x in out.get('POST ' + pn, vals[pn])]
        if f.ret != ('void',) and f.kind != 'ctor':
            rv = out.get('RET', [])
            if isinstance(nv.ret_shape, tuple):
                nv.ret = (TRUE if rv and rv[0] == 1 else FALSE, [tonum(x) for x in rv[1:]] or [num(0)] * NLEAVES[nv.ret_shape[1]])
            elif nv.ret_shape == 'bool':
                nv.ret = [TRUE if rv[0] else FALSE]
            else:
                nv.ret = [tonum(x) for x in rv]
        if any(x is None for lst in list(nv.post.values()) + ([nv.ret] if isinstance(nv.ret, list) else []) for x in lst):
            continue
        bad = evaluate(h(nv))
        if bad:
            found = (tag, vals, out, bad, cpp)
            break
    path = os.path.join(check.work, ob.name.replace('/', '_') + '.replay.json')
    rec = {'property': check.pid, 'obligation': ob.name, 'function': ob.function, 'source': ob.loc,
           'verifier_output': ob.detail, 'solver_model': {k: str(v) for k, v in model.items()}, 'log': log}
    if found:
        tag, vals, out, bad, cpp = found
        rec.update({'confirmed': True, 'input_kind': tag, 'inputs': {k: [str(x) for x in v] for k, v in vals.items()},
                    'native_output': {k: [str(x) for x in v] for k, v in out.items()}, 'mismatch': bad, 'cpp': cpp,
                    'numeric_type': T})
        json.dump(rec, open(path, 'w'), indent=1)
        check.violations.append((ob, keep_replay(check, path), ''))
    else:
        rec['confirmed'] = False
        json.dump(rec, open(path, 'w'), indent=1)
        check.violations.append((ob, keep_replay(check, path), 'no-failing-input-found'))


def tonum(x):
    if isinstance(x, float):
        return None
    return num(x)


def evaluate(goals):
    """Evaluate handler goals on numeric views; returns list of mismatch descriptions."""
    bad = []
    for g in goals:
        if g[0] == 'eq':
            guard = g[3] if len(g) > 3 else TRUE
            if guard == FALSE:
                continue
            for i, (x, y) in enumerate(zip(g[1], g[2])):
                c = cmp('==', x, y)
                if c != TRUE and is_num(x) and is_num(y) and abs(x[1] - y[1]) <= Fraction(1, 10 ** 9) * max(1, abs(x[1]), abs(y[1])):
                    c = TRUE   # replay tolerance (inexact division / sqrt); only used to confirm violations
                if c != TRUE:
                    bad.append('component %d: actual %s expected %s' % (i, x[1] if is_num(x) else x, y[1] if is_num(y) else y))
        else:
            if g[1] != TRUE:
                bad.append('predicate false: %s' % (g[1],))
    return bad
