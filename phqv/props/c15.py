"""C15 - printing is lossless and canonical; serialisations are well-formed."""
import os, re, json, math
from fractions import Fraction
from ..core import Ob, pmap
from .. import astload, lower, tu, replay
from ..lower import Unsupported, tstr
from ..cemit import round_to, MANT
from ..symex import SymEx, State, Ptr, mk, num, neg, cmp, land, lor, lnot, TRUE, FALSE, is_num, ite
from ..realob import RealTask, conj, leaves
from ..ieeeob import write_replay
from .quant_common import Quant, TENSORS, BASES
from .relations import template_of, vt, nleaves

MD10 = {'float': 9, 'double': 17, 'long double': 21}
DECADES = ['0.001', '0.01', '0.1', '1', '10', '100', '1000', '10000']


def ceil_T(fr, kind):
    """Smallest value of the type that is >= fr (fr > 0)."""
    r = round_to(fr, kind)
    if r >= fr:
        # maybe a smaller representable value is still >= fr
        p = pred_T(r, kind)
        return p if p >= fr else r
    return succ_T(r, kind)


def ulp_of(v, kind):
    p, emin, emax = MANT[kind]
    a = abs(v)
    e = a.numerator.bit_length() - a.denominator.bit_length()
    if Fraction(2) ** e > a:
        e -= 1
    elif Fraction(2) ** (e + 1) <= a:
        e += 1
    e = max(e, emin)
    return Fraction(2) ** (e - p + 1)


def succ_T(v, kind):
    return v + ulp_of(v, kind)


def pred_T(v, kind):
    u = ulp_of(v, kind)
    # at a power of two the spacing below is half
    a = abs(v)
    if a.numerator & (a.numerator - 1) == 0 and a.denominator & (a.denominator - 1) == 0:
        u = u / 2
    return v - u


def spec_cases(T, x):
    """The property's notation rule: list of (condition on x, expected single token)."""
    ax = ite(cmp('<=', num(0), x), x, neg(x))
    md = MD10[T]
    t = [Fraction(d) for d in DECADES]
    cases = [(cmp('==', x, num(0)), ('INT', num(0)))]
    cases.append((land(cmp('<', num(0), ax), cmp('<', ax, num(t[0]))), ('NUMF', num(2), num(md), x)))
    precs = [md + 3, md + 2, md + 1, md, md - 1, md - 2, md - 3]
    for i, p in enumerate(precs):
        cases.append((land(cmp('<=', num(t[i]), ax), cmp('<', ax, num(t[i + 1]))), ('NUMF', num(1), num(p), x)))
    cases.append((cmp('<=', num(t[7]), ax), ('NUMF', num(2), num(md), x)))
    return cases, ax


def run(check):
    tier = check.tier
    check.checker_cmd = 'clang++ -ast-dump=json | phqv lower (ostringstream/std::string as token lists) | phqv symex -> z3 nlsat ; exact rational arithmetic for representability gaps'
    check.assume('glibc/libstdc++ print exactly p correctly rounded digits for fixed/scientific + setprecision(p); stof/stod/stold are correctly rounded, so max_digits10+1 significant digits parse back bit for bit (assumed library contracts; the exhaustive 2^32 sweep is a testing activity outside this family)')
    check.assume('the cascade obligations are exact: PhQ::Print performs only comparisons, which are exact on the promoted operands; constants take the value their literal has in its own type; the quantifier "for all values of the numeric type" is discharged as "for all reals outside the intervals [min(t,d), max(t,d)) between a decimal threshold t and the literal d the code compares with", each of which is shown to contain no value of the type by exact arithmetic')
    # ------------------------------------------------------------------ the notation cascade of PhQ::Print<T>
    wd = os.path.join(check.work, 'ast')
    p = astload.dump(tu.print_tu(), wd, 'print')
    a = astload.Ast().load(p)
    os.remove(p)
    low = lower.Lowerer(a)
    prints = {}
    for o in a.walk():
        if o.get('kind') == 'FunctionDecl' and o.get('name') == 'Print' and low.has_body(o) and \
                any(c.get('kind') == 'TemplateArgument' for c in o.get('inner', ())):
            f = low.lower_func(o)
            prints[f.params[0][1][1]] = f
    if sorted(prints) != ['double', 'float', 'long double']:
        check.error('must-fire: PhQ::Print instantiations found for %s' % sorted(prints))
    tasks = []
    for T, f in sorted(prints.items()):
        tag = T.replace(' ', '_')
        check.under_contract(f)
        loc = 'include/PhQ/Base.hpp:%s' % f.loc[1]
        S = SymEx(low, mode='LIT')
        st = State()
        x = S.sym('x')
        toks = S.call(f, [x], st)
        code = list(toks[1])
        # the cell decomposition below treats casts of the value as exact: that is only right if the value is never narrowed
        RANK = {'float': 0, 'double': 1, 'long double': 2}
        narrowed = [(to, frm) for to, frm in S.narrowings if RANK[to] < RANK[T]]
        obp = Ob('C15.print.own-type.%s' % tag, 'static', f.qualname, loc)
        obp.backend = 'phqv symex (precision audit)'
        obp.text = 'PhQ::Print<%s> classifies and inserts the value in its own numeric type: the value is never cast to a narrower floating type' % T
        obp.status = 'discharged' if not narrowed else 'failed'
        if narrowed:
            obp.detail = 'the %s value is narrowed to %s before it is classified or printed' % (narrowed[0][1], narrowed[0][0])
            p_, emin_, emax_ = MANT[narrowed[0][0]]
            tiny = Fraction(2) ** (emin_ - p_ - 4)       # rounds to zero in the narrower type, normal in T (for long double)
            obp.cex = {'x': tiny}
        check.add(obp)
        # PhQ::Print only compares |x| with constants: on every cell of the partition of the real line induced by
        # those constants and the decimal thresholds of the property, code and property are constant.  Evaluating
        # both on one value of the numeric type per cell that contains one (and on every breakpoint that is itself a
        # value of the type) decides the obligation for ALL values of the type, exactly.
        from .c06 import term_eval
        consts = sorted(set(c for c in collect_consts(code) if c > 0) | set(Fraction(d) for d in DECADES))
        cells = [('point', Fraction(0))]
        prev = Fraction(0)
        for c in consts:
            cells.append(('open', prev, c))
            cells.append(('point', c))
            prev = c
        cells.append(('open', prev, None))
        failures = {}
        ncells = 0
        for cell in cells:
            if cell[0] == 'point':
                v = cell[1]
                if round_to(v, T) != v:
                    continue
            else:
                lo, hi = cell[1], cell[2]
                v = ceil_T(lo, T) if lo > 0 else smallest_positive(T)
                if v <= lo:
                    v = succ_T(v, T)
                if hi is not None and v >= hi:
                    continue
            for sgn in ((1, -1) if v != 0 else (1,)):
                xv = sgn * v
                ncells += 1
                got = [render_tok(tok, {'x': xv}, term_eval) for g, tok in code if term_eval(g, {'x': xv})]
                k, want = spec_eval(T, xv)
                if got != [want]:
                    failures.setdefault(k, []).append((xv, got, want))
        for k in range(10):
            ob = Ob('C15.cascade.%s.case%d' % (tag, k), 'ground', f.qualname, loc)
            ob.backend = 'phqv symex (comparison-only body) + exact cell decomposition'
            ob.text = 'for every %s value x with %s: PhQ::Print(x) inserts exactly one item, %s  [%d cells evaluated in total]' % (
                T, describe_case(k, T), describe_want(k, T), ncells)
            fl = failures.get(k, [])
            unlisted = [w for w in fl if not any(kn == ob.name and ('input=%s ' % w[0]) in (rest + ' ') for kn, rest in check.known)]
            if not fl:
                ob.status = 'discharged'
            elif not unlisted:
                ob.status = 'known'
                for w in fl:
                    check.known_hits.append(known_text(check, ob.name, w))
            else:
                ob.status = 'failed'
                w = unlisted[0]
                ob.detail = '%s value %s (= %r) prints as %s, the property requires %s' % (T, w[0], float(w[0]), w[1], w[2])
                ob.cex = {'x': w[0]}
                for w2 in fl:
                    if w2 not in unlisted:
                        check.known_hits.append(known_text(check, ob.name, w2))
            check.add(ob)
        # no decimal carry across a decade: the largest value below 10^(k+1) still rounds below it at the precision used
        md = MD10[T]
        for i, p_ in enumerate([md + 3, md + 2, md + 1, md, md - 1, md - 2, md - 3]):
            upper = Fraction(DECADES[i + 1])
            ob = Ob('C15.nocarry.%s.%s' % (tag, DECADES[i + 1]), 'ground', f.qualname, loc)
            ob.backend = 'exact rational arithmetic'
            big = pred_T(round_to(upper, T) if round_to(upper, T) <= upper else pred_T(round_to(upper, T), T), T) if False else largest_below(upper, T)
            half = Fraction(1, 2) / Fraction(10) ** p_
            ob.text = 'largest %s below %s is %s < %s - 0.5e-%d: fixed notation with %d decimals cannot carry into the next decade (so exactly %d significant digits)' % (T, upper, float(big), upper, p_, p_, md + 1)
            ob.status = 'discharged' if big < upper - half else 'failed'
            if ob.status == 'failed':
                ob.detail = 'the value %s prints with a carry into %s' % (big, upper)
                ob.cex = {'x': big}
            check.add(ob)
    # ------------------------------------------------------------------ composite forms (token contracts)
    token_obligations(check, tasks)
    check.log('%d symbolic obligations' % len(tasks))
    for t, ob in zip(tasks, pmap(lambda t: t.run(), tasks)):
        check.add(ob)
    known = {k for k, _ in check.known}
    for ob in list(check.obs):
        if ob.status == 'failed':
            inp = 'input=%s' % (ob.cex.get('x') if isinstance(ob.cex, dict) else None)
            if any(k == ob.name and inp in rest for k, rest in check.known):
                ob.status = 'known'
                check.known_hits.append('obligation=%s %s' % (ob.name, ob.detail))
                continue
            adjudicate(check, ob)


def known_text(check, name, w):
    for kn, rest in check.known:
        if kn == name and ('input=%s ' % w[0]) in (rest + ' '):
            return 'obligation=%s %s' % (name, rest)
    return 'obligation=%s input=%s' % (name, w[0])


def smallest_positive(T):
    """Smallest positive NORMAL value of T (the property is stated for finite normal numbers)."""
    p, emin, emax = MANT[T]
    return Fraction(2) ** emin


def spec_eval(T, xv):
    """The property's rule evaluated exactly on one value: (case index, expected item)."""
    md = MD10[T]
    a = abs(xv)
    t = [Fraction(d) for d in DECADES]
    if a == 0:
        return 0, ('INT', 0)
    if a < t[0]:
        return 1, ('NUMF', 2, md, xv)
    precs = [md + 3, md + 2, md + 1, md, md - 1, md - 2, md - 3]
    for i, p in enumerate(precs):
        if t[i] <= a < t[i + 1]:
            return 2 + i, ('NUMF', 1, p, xv)
    return 9, ('NUMF', 2, md, xv)


def render_tok(tok, env, term_eval):
    if tok[0] == 'INT':
        return ('INT', int(term_eval(tok[1], env)))
    if tok[0] == 'NUMF':
        return ('NUMF', int(term_eval(tok[1], env)), int(term_eval(tok[2], env)), term_eval(tok[3], env))
    return tok


def describe_want(k, T):
    md = MD10[T]
    if k == 0:
        return 'the integer literal 0'
    if k in (1, 9):
        return 'the value in scientific notation with precision %d' % md
    return 'the value in fixed notation with precision %d' % [md + 3, md + 2, md + 1, md, md - 1, md - 2, md - 3][k - 2]


def largest_below(upper, T):
    r = round_to(upper, T)
    if r < upper:
        return r
    return pred_T(r, T)


def collect_consts(code):
    out = []
    seen = set()

    def walk(t):
        if not isinstance(t, tuple) or id(t) in seen:
            return
        seen.add(id(t))
        if t and t[0] == 'num':
            out.append(t[1])
            return
        for c in t[1:] if t and isinstance(t[0], str) else t:
            if isinstance(c, tuple):
                walk(c)
    for g, tok in code:
        walk(g)
    return out


def tok_equal(a, b):
    if a[0] != b[0]:
        return False
    return all(x == y for x, y in zip(a[1:], b[1:]))


def describe_tok(t):
    if t[0] == 'INT':
        return 'the integer literal 0'
    return 'the value in %s notation with precision %s' % ('fixed' if t[1][1] == 1 else 'scientific', t[2][1])


def describe_case(k, T):
    names = ['x == 0', '0 < |x| < 0.001'] + ['%s <= |x| < %s' % (DECADES[i], DECADES[i + 1]) for i in range(7)] + ['|x| >= 10000']
    return names[k]


# ---------------------------------------------------------------------------------------------------
FORMS = ('Print', 'JSON', 'XML', 'YAML')


def token_obligations(check, tasks):
    nforms = 0
    ns = 0
    NT = ['double', 'float', 'long double']
    loaded = pmap(lambda T: Quant(check, types=(T,), other_types=(), conv=False, hash_=False), NT)
    for T, Q in zip(NT, loaded):
        x, y = token_obligations_for(check, Q, T)
        nforms += x
        ns += y
    check.extra['composite_forms'] = nforms
    check.extra['stream_operators'] = ns
    if nforms < 3 * (4 * 4 + 10 * 4):
        check.error('must-fire: expected >= 168 composite forms, found %d' % nforms)


def token_obligations_for(check, Q, T):
    low = Q.low
    tag = T.replace(' ', '_')
    done = set()
    targets = []
    for cls in TENSORS:
        targets.append((cls, Q.canon(cls, T), False))
    for cls in Q.quantities:
        r = low.record(Q.canon(cls, T))
        for b in r.bases:
            tm = low.record(b).template
            if tm in BASES and tm not in done and any(g.node.get('name') == 'Print' for g in Q.methods(b)):
                done.add(tm)
                targets.append((tm, b, tm.startswith('Dimensional') and not tm.startswith('Dimensionless')))
    if len(done) != 10:
        check.error('must-fire: expected the 10 Dimensional*/Dimensionless* bases, found %s' % sorted(done))
    nforms = 0
    for label, canon, dimensional in targets:
        n = nleaves(low, ('rec', canon))
        for f in Q.methods(canon):
            nm = f.node.get('name')
            if nm not in FORMS or f.kind != 'method':
                continue
            with_unit = len(f.params) == 2
            if len(f.params) > 2:
                continue
            name = 'C15.tokens.%s.%s%s.%s' % (label, nm, '(unit)' if with_unit else '', tag)
            try:
                ob = token_check(check, Q, low, f, canon, n, dimensional, with_unit, name)
            except Unsupported as e:
                check.error('%s: %s' % (name, e))
                continue
            nforms += 1
            check.add(ob)
            check.under_contract(f)
    # streaming equals printing: operator<<(stream, q) inserts exactly q.Print()
    ns = 0
    for f in Q.free_functions(names={'operator<<'}):
        if len(f.params) != 2 or vt(f.params[1][1])[0] != 'rec':
            continue
        canon = vt(f.params[1][1])[1]
        name = 'C15.stream.%s.%s' % (low.record(canon).template or canon, tag)
        try:
            ob = stream_check(check, Q, low, f, canon, name)
        except Unsupported as e:
            check.error('%s: %s' % (name, e))
            continue
        ns += 1
        check.add(ob)
        check.under_contract(f)
    return nforms, ns


def conv_contract(low):
    """Contract of all conversion entry points (Convert, ConvertInPlace, ConvertStatically; proved in C02): component-wise
    application of one uninterpreted function convert(x, from, to)."""
    from .c02_members import summary_for
    return summary_for(low)


def conv_summaries(low):
    """Contract summary of the conversion entry points at the text level: Convert(x, from, to) is an uninterpreted
    function of (x, from, to) per component (its meaning is C01/C02's business)."""
    from ..realob import leaves as lv

    def summ(S, g, args, st):
        x, frm, to = args[0], args[1], args[2]

        def m(v):
            if isinstance(v, dict):
                return {k: m(w) for k, w in v.items()}
            if isinstance(v, list):
                return [m(w) for w in v]
            return S.app('convert', [S.tonum(v), S.tonum(frm), S.tonum(to)])
        if isinstance(x, Ptr):
            x = S.load(st, x)
        return m(x)
    out = {}
    for g in low.funcs.values():
        if g.kind == 'func' and g.node.get('name') == 'Convert' and len(g.params) == 3:
            out[g.cname] = summ
    return out


def token_check(check, Q, low, f, canon, n, dimensional, with_unit, name):
    from ..symex import SymEx
    # make sure callees are lowered before building summaries
    S = SymEx(low, summary_for=conv_contract(low))
    st = State()
    val = S.symbolic_value(('rec', canon), 'q')
    b = S.newbox(st, val)
    args = [Ptr(b, ())]
    unit = None
    if with_unit:
        unit = S.sym('unit')
        args.append(unit)
    r = S.call(f, args, st)
    toks = list(S.as_tokv(r)[1])
    comps = leaves(val)
    Tn = low.record(canon).targs[-1] if low.record(canon).targs else 'double'
    ob = Ob(name, 'REAL', f.qualname, Q.loc(f))
    ob.backend = 'phqv symex (token lists)'
    nums = [tok for g, tok in toks if tok[0] == 'NUM']
    abbrs = [tok for g, tok in toks if tok[0] == 'ABBR']
    bad = []
    if any(g != TRUE for g, tok in toks):
        bad.append('conditional output')
    if len(nums) != n:
        bad.append('%d number tokens for %d components' % (len(nums), n))
    else:
        for i, (tok, c) in enumerate(zip(nums, comps)):
            want = c
            if with_unit:
                # component i converted from the standard unit to the requested unit
                ok = tok[1][0] == 'app' and tok[1][1] == 'convert' and tok[1][2][0] == c and tok[1][2][2] == unit and is_num(tok[1][2][1])
            else:
                ok = tok[1] == want
            if not ok:
                bad.append('number %d is %s, expected component %d%s' % (i, short(tok[1]), i, ' converted to the unit' if with_unit else ''))
            if len(tok) > 2 and tok[2] != Tn:
                bad.append('number %d is printed as a %s (its digits are those of that type), the quantity holds %s' % (i, tok[2], Tn))
    RANK_ = {'float': 0, 'double': 1, 'long double': 2}
    for to_, frm_ in S.narrowings:
        if RANK_[to_] < RANK_.get(Tn, 1):
            bad.append('a %s value is narrowed to %s on its way into the text of a %s quantity' % (frm_, to_, Tn))
            break
    if dimensional:
        if len(abbrs) != 1:
            bad.append('%d unit abbreviations' % len(abbrs))
        else:
            ua = abbrs[0][2]
            if with_unit and ua != unit:
                bad.append('abbreviation of %s, expected the requested unit' % short(ua))
            if not with_unit and not is_num(ua):
                bad.append('abbreviation of a non-constant unit')
    elif abbrs:
        bad.append('unit abbreviation in a dimensionless form')
    # literal skeleton well-formedness
    skel = ''.join(tok[1] if tok[0] == 'LIT' else ('1.5' if tok[0] == 'NUM' else 'm/s') for g, tok in toks)
    form = f.node.get('name')
    if form == 'JSON':
        try:
            json.loads(skel)
        except Exception as e:
            bad.append('JSON skeleton %r is not valid JSON (%s)' % (skel, e))
    elif form == 'XML':
        import xml.etree.ElementTree as ET
        try:
            ET.fromstring('<r>' + skel + '</r>')
        except Exception as e:
            bad.append('XML skeleton %r is not well formed (%s)' % (skel, e))
    elif form == 'YAML':
        if skel.count('{') != skel.count('}') or skel.count('"') % 2:
            bad.append('YAML skeleton %r is unbalanced' % skel)
    vals = [1.5 + i for i in range(n)]
    T = low.record(canon).targs[-1] if low.record(canon).targs else 'double'
    form_call = 'q.%s(%s)' % (form, 'u' if with_unit else '')
    ut = low.record(canon).targs[0] if dimensional else None
    hdr = 'PhQ/' + low.record(canon).template + '.hpp'
    exp_lines = ''
    for i in range(n):
        if with_unit:
            exp_lines += '  std::printf("EXPECT %%s\\n", PhQ::Print(PhQ::Convert(raw[%d], PhQ::Standard<PhQ::%s>, u)).c_str());\n' % (i, ut)
        else:
            exp_lines += '  std::printf("EXPECT %%s\\n", PhQ::Print(raw[%d]).c_str());\n' % i
    ob.replay = {'values': vals, 'with_unit': with_unit, 'dimensional': dimensional, 'cpp':
                 '#include <%s>\n%s#include <cstdio>\n#include <cstring>\n#include <string>\nint main() {\n  %s raw[%d] = {%s};\n  %s q; std::memcpy(&q, raw, sizeof q);\n%s  std::string s = %s;\n  std::printf("%%s\\n%s", s.c_str()%s);\n%s  return 0; }\n' % (
                     hdr, ('#include <PhQ/Unit/%s.hpp>\n' % ut.split('::')[1]) if dimensional else '', T, n, ', '.join(repr(v) for v in vals),
                     replay.cpp_record(low, canon),
                     ('  auto u = static_cast<PhQ::%s>(1);\n' % ut) if dimensional else '',
                     form_call,
                     '%s\\n' if dimensional else '',
                     (', std::string(PhQ::Abbreviation(%s)).c_str()' % ('u' if with_unit else 'PhQ::Standard<PhQ::%s>' % ut)) if dimensional else '',
                     exp_lines)}
    ob.text = '%s yields tokens %s' % (f.qualname, ' '.join('NUM' if tok[0] == 'NUM' else ('ABBR' if tok[0] == 'ABBR' else repr(tok[1])) for g, tok in toks))
    ob.status = 'discharged' if not bad else 'failed'
    if bad:
        ob.detail = '; '.join(bad)
    return ob


def stream_check(check, Q, low, f, canon, name):
    S = SymEx(low, summary_for=conv_contract(low))
    st = State()
    val = S.symbolic_value(('rec', canon), 'q')
    b = S.newbox(st, val)
    osb = S.newbox(st, S.undef_value(('ostream',)))
    S.call(f, [Ptr(osb, ()), Ptr(b, ())], st)
    streamed = st.mem[osb]['toks']
    pr = [g for g in Q.methods(canon) if g.node.get('name') == 'Print' and len(g.params) == 1]
    if not pr:
        # Print() is inherited from the base class
        for base in low.record(canon).bases:
            pr = [g for g in Q.methods(base) if g.node.get('name') == 'Print' and len(g.params) == 1]
            if pr:
                break
    ob = Ob(name, 'REAL', f.qualname, Q.loc(f))
    ob.backend = 'phqv symex (token lists)'
    if not pr:
        raise Unsupported('no Print() found for %s' % canon)
    S2 = SymEx(low, summary_for=conv_contract(low))
    st2 = State()
    val2 = S2.symbolic_value(('rec', canon), 'q')
    b2 = S2.newbox(st2, val2)
    ptr = Ptr(b2, ())
    g = pr[0]
    if g.record != canon:
        path = low.base_path(canon, g.record)
        ptr = Ptr(b2, tuple(path))
    printed = S2.as_tokv(S2.call(g, [ptr], st2))
    ob.text = 'operator<<(stream, %s) inserts exactly the tokens of Print()' % canon
    ob.status = 'discharged' if streamed == printed else 'failed'
    if ob.status == 'failed':
        ob.detail = 'streamed %s, printed %s' % (short(streamed), short(printed))
    return ob


def short(t):
    s = repr(t)
    return s if len(s) < 160 else s[:157] + '...'


def adjudicate(check, ob):
    rec = {'property': 'C15', 'obligation': ob.name, 'function': ob.function, 'source': ob.loc, 'verifier_output': ob.detail, 'text': ob.text}
    confirmed = False
    m = re.match(r'C15\.(cascade|nocarry)\.(\w+?)\.(?:case)?', ob.name) or re.match(r'C15\.(print)\.own-type\.(\w+)$', ob.name)
    try:
        if m and isinstance(ob.cex, dict) and 'x' in ob.cex:
            T = m.group(2).replace('_', ' ')
            v = ob.cex['x']
            from ..cemit import hexfloat
            cpp = '#include <PhQ/Base.hpp>\n#include <cstdio>\n#include <string>\nint main() { %s x = %s; std::string s = PhQ::Print(x); std::printf("%%s\\n", s.c_str()); return 0; }\n' % (T, hexfloat(v, T))
            r, err = replay.build_and_run(cpp, os.path.join(check.work, 'replay'), 'r_' + re.sub(r'\W+', '_', ob.name))
            if err:
                rec['replay_error'] = err
            else:
                s = r.stdout.strip()
                digits = re.sub(r'[^0-9]', '', s.split('e')[0]).lstrip('0')
                rec.update({'cpp': cpp, 'native_output': s, 'inputs': {'x': str(v)}})
                want = MD10[T] + 1
                sci = 'e' in s
                absx = abs(v)
                should_fixed = Fraction('0.001') <= absx < Fraction(10000)
                if len(digits) != want or sci == should_fixed:
                    confirmed = True
                    rec['mismatch'] = ['PhQ::Print(%s) = "%s": %d significant digits (expected %d), %s notation (expected %s)' % (
                        float(v), s, len(digits), want, 'scientific' if sci else 'fixed', 'fixed' if should_fixed else 'scientific')]
        elif False and ob.name.startswith('C15.cascade.'):
            mm = re.match(r'C15\.cascade\.(\w+)\.case(\d+)', ob.name)
            T = mm.group(1).replace('_', ' ')
            k = int(mm.group(2))
            mids = ['0', '0.0005', '0.005', '0.05', '0.5', '5', '50', '500', '5000', '50000']
            v = Fraction(mids[k])
            suf = {'float': 'f', 'double': '', 'long double': 'L'}[T]
            cpp = '#include <PhQ/Base.hpp>\n#include <cstdio>\n#include <string>\nint main() { %s x = %s%s; std::string s = PhQ::Print(x); std::printf("%%s\\n", s.c_str()); return 0; }\n' % (T, mids[k], suf)
            r, err = replay.build_and_run(cpp, os.path.join(check.work, 'replay'), 'r_' + re.sub(r'\W+', '_', ob.name))
            if err:
                rec['replay_error'] = err
            else:
                sres = r.stdout.strip()
                digits = re.sub(r'[^0-9]', '', sres.split('e')[0]).lstrip('0')
                sci = 'e' in sres
                should_fixed = Fraction('0.001') <= v < Fraction(10000)
                rec.update({'cpp': cpp, 'native_output': sres, 'inputs': {'x': mids[k]}})
                if k == 0:
                    if sres != '0':
                        confirmed, rec['mismatch'] = True, ['PhQ::Print(0) = "%s"' % sres]
                elif len(digits) != MD10[T] + 1 or sci == should_fixed:
                    confirmed = True
                    rec['mismatch'] = ['PhQ::Print(%s) = "%s": %d significant digits (expected %d), %s notation (expected %s)' % (
                        mids[k], sres, len(digits), MD10[T] + 1, 'scientific' if sci else 'fixed', 'fixed' if should_fixed else 'scientific')]
        elif ob.name.startswith('C15.tokens.') and getattr(ob, 'replay', None):
            info = ob.replay
            r, err = replay.build_and_run(info['cpp'], os.path.join(check.work, 'replay'), 'r_' + re.sub(r'\W+', '_', ob.name))
            if err:
                rec['replay_error'] = err
            else:
                lines = r.stdout.split('\n')
                text, abbr = lines[0], (lines[1] if len(lines) > 1 else '')
                rec.update({'cpp': info['cpp'], 'native_output': r.stdout, 'inputs': {'components': info['values']}})
                nums = [float(x) for x in re.findall(r'-?\d+\.\d+(?:e[-+]\d+)?', text)]
                bad = []
                if not info['with_unit'] and nums != info['values']:
                    bad.append('numbers in the text %s, stored components %s' % (nums, info['values']))
                if info['dimensional'] and abbr and abbr not in text:
                    bad.append('the text "%s" does not contain the abbreviation "%s" of the unit' % (text, abbr))
                # the number strings of the text must be exactly PhQ::Print of each (converted) component, in order
                expect = [l[7:] for l in lines if l.startswith('EXPECT ')]
                pos = 0
                for i, e in enumerate(expect):
                    j = text.find(e, pos)
                    nxt = text[j + len(e):j + len(e) + 1] if j >= 0 else ''
                    if j < 0 or nxt.isdigit():
                        bad.append('component %d: the text %r does not contain PhQ::Print of the component, %r, after position %d' % (i, text, e, pos))
                        break
                    pos = j + len(e)
                if bad:
                    confirmed, rec['mismatch'] = True, bad
    except Exception as e:
        rec['replay_error'] = '%s: %s' % (type(e).__name__, e)
    rec['confirmed'] = confirmed
    check.violations.append((ob, write_replay(check, ob, rec), '' if confirmed else 'no-failing-input-found'))
