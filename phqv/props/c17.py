"""C17 - quantities are bare numbers in memory."""
import os, re, subprocess
from fractions import Fraction
from ..core import Ob, pmap
from .. import astload, cemit, replay, tu
from ..lower import Unsupported, tstr
from ..ieeeob import IeeeJob, HarnessJob, param_leaves, cleaves, isnan_fn, run_jobs, same, write_replay, old
from .quant_common import Quant, TENSORS, BASES

NUMS = ('float', 'double', 'long double')
SHAPE_N = {'DimensionalScalar': 1, 'DimensionlessScalar': 1, 'DimensionalPlanarVector': 2, 'DimensionlessPlanarVector': 2,
           'DimensionalVector': 3, 'DimensionlessVector': 3, 'DimensionalSymmetricDyad': 6, 'DimensionlessSymmetricDyad': 6,
           'DimensionalDyad': 9, 'DimensionlessDyad': 9}


def layout_obligations(check, Q):
    """Static facts decided by the compilers: one static_assert per (class, numeric type, fact)."""
    low = Q.low
    lines = [tu.includes([h for h in astload.all_headers() if 'ConstitutiveModel' not in h]), '#include <type_traits>']
    names = []
    T0 = Q.types[0]
    for cls in Q.quantities:
        # the number of components is fixed by the *shape* of the base class, not by what is stored
        r = low.record(Q.canon(cls, T0))
        shapes = [SHAPE_N[low.record(b).template] for b in r.bases if low.record(b).template in SHAPE_N]
        if len(shapes) != 1:
            check.error('C17: %s does not derive from exactly one Dimensional*/Dimensionless* base' % cls)
            continue
        n = shapes[0]
        for T in NUMS:
            q = 'PhQ::%s<%s>' % (cls, T)
            for fact, expr in (('size', 'sizeof(%s) == %d * sizeof(%s)' % (q, n, T)),
                               ('align', 'alignof(%s) == alignof(%s)' % (q, T)),
                               ('trivially_copyable', 'std::is_trivially_copyable_v<%s>' % q),
                               ('standard_layout', 'std::is_standard_layout_v<%s>' % q)):
                nm = 'C17.layout.%s.%s.%s' % (cls, T.replace(' ', '_'), fact)
                names.append((nm, expr, cls))
                lines.append('static_assert(%s, "%s");' % (expr, nm))
    src = os.path.join(check.work, 'layout.cpp')
    open(src, 'w').write('\n'.join(lines) + '\n')
    failed = {}
    compilers = [('g++', ['g++', '-std=c++17', '-fsyntax-only', '-w', '-I' + astload.INC, src]),
                 ('clang++', ['clang++', '-std=c++17', '-fsyntax-only', '-Wno-everything', '-ferror-limit=0', '-I' + astload.INC, src])]
    outs = pmap(lambda c: subprocess.run(c[1], capture_output=True, text=True), compilers)
    for (cn, _), r in zip(compilers, outs):
        for nm, expr, cls in names:
            if nm in r.stderr:
                failed.setdefault(nm, []).append(cn)
        other = [l for l in r.stderr.split('\n') if 'error' in l and 'static_assert' not in l and 'static assertion' not in l
                 and 'PlanarDisplacement.hpp' not in l and 'C17.layout' not in l]
        if r.returncode != 0 and not any(nm in r.stderr for nm, _, _ in names) and other:
            check.error('layout TU does not compile with %s: %s' % (cn, other[:3]))
    for nm, expr, cls in names:
        ob = Ob(nm, 'static', 'PhQ::' + cls, dict(Q.class_list).get(cls))
        ob.backend = 'g++ / clang++ static_assert'
        ob.text = 'static_assert(%s)' % expr
        if nm in failed:
            ob.status, ob.detail = 'failed', 'static_assert fails with %s' % failed[nm]
            rec = {'property': 'C17', 'obligation': nm, 'function': ob.function, 'source': ob.loc, 'verifier_output': ob.detail,
                   'cpp': '#include <%s>\n#include <type_traits>\nstatic_assert(%s, "%s");\n' % (dict(Q.class_list)[cls], expr, nm),
                   'compile_only': True, 'confirmed': True, 'mismatch': ['%s is false' % expr]}
            check.violations.append((ob, write_replay(check, ob, rec), ''))
        else:
            ob.status = 'discharged'
        check.add(ob)
    check.extra['layout_facts'] = len(names)


def run(check):
    tier = check.tier
    types = ['double'] if tier == 'quick' else ['double', 'float']
    check.checker_cmd = 'g++ -fsyntax-only / clang++ -fsyntax-only on generated static_asserts ; clang++ -ast-dump=json | phqv lower | goto-cc | goto-instrument --dfcc --enforce-contract <Zero|Value|SetValue|MutableValue|Set_*|Mutable_*> | cbmc'
    check.assume('layout facts (size, alignment, trivially copyable, standard layout) are decided by the two compilers themselves, for float, double and long double; they are compiler-decided static facts, not CBMC proofs')
    jobs = []
    first = True
    for T in types:
        Q = Quant(check, types=(T,), other_types=(), conv=False, hash_=False)
        low = Q.low
        tag = T.replace(' ', '_')
        if first:
            layout_obligations(check, Q)
            first = False
        sb = 'signbit'
        # Zero(): every component +0
        for cls in list(TENSORS) + Q.quantities:
            canon = Q.canon(cls, T)
            z = [f for f in Q.methods(canon) if f.node.get('name') == 'Zero' and f.kind == 'static']
            if not z:
                check.error('C17: %s has no Zero()' % canon)
                continue
            f = z[0]
            lv = cleaves(low, '__CPROVER_return_value', f.ret)
            ens = ['%s == 0 && !__CPROVER_signbit(%s)' % (x, x) for x in lv] if False else \
                  ['%s == 0 && !(1 / %s < 0)' % (x, x) for x in lv]

            def pred(w, out, run):
                got = out.get('RET', [])
                bad = []
                for i, x in enumerate(got):
                    import math
                    if float(x) != 0.0 or math.copysign(1.0, float(x)) < 0:
                        bad.append('component %d of Zero() is %r' % (i, x))
                return bad
            jobs.append(IeeeJob(check, 'C17.zero.%s.%s' % (cls, tag), low, f, ensures=ens, backend='sat', timeout=120, predicate=pred))
            check.under_contract(f)
        # accessors / mutators of the base classes (instantiated through the quantity classes)
        seen = set()
        for cls in Q.quantities:
            r = low.record(Q.canon(cls, T))
            for b in r.bases:
                if b in seen:
                    continue
                tmpl = low.record(b).template
                if tmpl not in BASES:
                    continue
                if tmpl in seen:
                    continue
                seen.add(b)
                seen.add(tmpl)    # one representative instantiation per base class template
                jobs += accessor_jobs(check, Q, b, T, tag)
        for cls in TENSORS:
            jobs += tensor_accessor_jobs(check, Q, Q.canon(cls, T), T, tag)
    signature_obligations(check)
    check.log('%d IEEE obligations' % len(jobs))
    run_jobs(check, jobs)


def accessor_jobs(check, Q, canon, T, tag):
    low = Q.low
    jobs = []
    r = low.record(canon)
    vt = dict(r.fields).get('value')
    if vt is None:
        check.error('C17: %s has no data member "value"' % canon)
        return jobs
    if len(r.fields) != 1:
        check.error('C17: %s has %d data members (expected the single member "value")' % (canon, len(r.fields)))
    sl = cleaves(low, 'self->value', vt)
    for f in Q.methods(canon):
        nm = f.node.get('name')
        np = len(f.params)
        base = 'C17.access.%s.%s' % (r.template, nm)
        if nm == 'Value' and np == 1:
            if f.ret[0] == 'ptr':
                ens = ['__CPROVER_return_value == &(self->value)']
            else:
                ens = ['%s == %s || %s(%s)' % (a, b, isnan_fn(T), b) for a, b in zip(cleaves(low, '__CPROVER_return_value', f.ret), sl)]
            jobs.append(IeeeJob(check, '%s.%s' % (base, tag), low, f, ensures=ens, backend='sat'))
        elif nm == 'MutableValue' and np == 1:
            jobs.append(IeeeJob(check, '%s.%s' % (base, tag), low, f, ensures=['__CPROVER_return_value == &(self->value)'], backend='sat'))
        elif nm == 'SetValue' and np == 2:
            pn, pt = f.params[1]
            src = cleaves(low, pn, pt[1], arrow=True) if pt[0] == 'ptr' else cleaves(low, pn, pt)
            ens = ['%s == %s || %s(%s)' % (a, old(b) if pt[0] != 'ptr' else b, isnan_fn(T), a) for a, b in zip(sl, src)]
            jobs.append(IeeeJob(check, '%s.%s' % (base, tag), low, f, ensures=ens, assigns='__CPROVER_assigns(self->value)', backend='sat'))
        else:
            continue
        check.under_contract(f)
    return jobs


def tensor_accessor_jobs(check, Q, canon, T, tag):
    """Set_<c>(v) writes exactly slot c; Mutable_<c>() returns the address of slot c."""
    low = Q.low
    jobs = []
    r = low.record(canon)
    fld, ft = r.fields[0]
    n = ft[2]
    comps = fld.rstrip('_').split('_')
    for f in Q.methods(canon):
        nm = f.node.get('name')
        m = re.match(r'^(Set|Mutable)_(\w+)$', nm)
        if not m:
            continue
        which = m.group(2).split('_')
        base = 'C17.access.%s.%s' % (r.template, nm)
        if m.group(1) == 'Mutable':
            if len(which) == 1:
                sym = sym_index(comps, which[0])
                if sym is None:
                    continue
                ens = ['__CPROVER_return_value == &(self->%s.e[%d])' % (fld, sym)]
            else:
                ens = ['__CPROVER_return_value == &(self->%s)' % fld]
            jobs.append(IeeeJob(check, '%s.%s' % (base, tag), low, f, ensures=ens, backend='sat'))
        else:
            if len(which) == 1 and len(f.params) == 2:
                sym = sym_index(comps, which[0])
                if sym is None:
                    continue
                pn = f.params[1][0]
                ens = []
                for i in range(n):
                    if i == sym:
                        ens.append('self->%s.e[%d] == %s || %s(%s)' % (fld, i, pn, isnan_fn(T), pn))
                    else:
                        ens.append('self->%s.e[%d] == __CPROVER_old(self->%s.e[%d]) || %s(self->%s.e[%d])' % (fld, i, fld, i, isnan_fn(T), fld, i))
                def pred(w, out, run, pn=pn, sym=sym, nm=nm):
                    got = out.get('POST self')
                    a = w.get('self')
                    if got is None or a is None:
                        return []
                    want = list(a)
                    want[sym] = w[pn][0]
                    if [Fraction(x) for x in got] != [Fraction(x) for x in want]:
                        return ['%s(%s) on %s leaves %s; expected %s (slot %d written, the others untouched)' % (
                            nm, float(w[pn][0]), [float(x) for x in a], [float(x) for x in got], [float(x) for x in want], sym)]
                    return []
                jobs.append(IeeeJob(check, '%s.%s' % (base, tag), low, f, ensures=ens, assigns='__CPROVER_assigns(self->%s.e[%d])' % (fld, sym), backend='sat', predicate=pred))
            else:
                continue
        check.under_contract(f)
    return jobs


def sym_index(comps, c):
    if c in comps:
        return comps.index(c)
    if len(c) == 2 and c[::-1] in comps:     # symmetric dyad: yx is stored in xy
        return comps.index(c[::-1])
    return None


def signature_obligations(check):
    """Accessors and mutators expose exactly the stored value only if they carry it in the numeric type of the
    instantiation: in the double and long double instantiations no member (other than the converting member templates) may
    take or return a plain number of a narrower floating type - the value would be narrowed silently at the call site."""
    from ..core import pmap
    types = ['double', 'long double']       # a parameter of a WIDER type loses nothing; only narrower ones are flagged
    RANK = {'float': 0, 'double': 1, 'long double': 2}
    loaded = pmap(lambda T: Quant(check, types=(T,), other_types=(), conv=False, hash_=False), types)
    total = 0
    for T, Q in zip(types, loaded):
        low = Q.low
        tag = T.replace(' ', '_')
        for canon, r in sorted(low.records.items()):
            if not (r.targs and r.targs[-1] == T):
                continue
            bad = []
            n = 0
            for f in Q.methods(canon):
                if any(x.get('kind') == 'TemplateArgument' for x in f.node.get('inner', ())):
                    continue          # member templates (converting constructor / assignment, Create<u>, StaticValue<u>)
                n += 1
                for pn, pt in f.params:
                    vt = pt[1] if pt[0] in ('ptr', 'ref') else pt
                    if vt[0] == 'f' and RANK[vt[1]] < RANK[T]:
                        bad.append((f, 'parameter %s of %s has the narrower type %s' % (pn, f.qualname, vt[1])))
                rt = f.ret[1] if f.ret[0] in ('ptr', 'ref') else f.ret
                if rt[0] == 'f' and RANK[rt[1]] < RANK[T]:
                    bad.append((f, '%s returns the narrower type %s' % (f.qualname, rt[1])))
            if n == 0:
                continue
            total += n
            ob = Ob('C17.signature.%s.%s' % (r.template or canon, tag), 'static', canon, None)
            ob.backend = 'lowered signatures'
            ob.text = 'no plain floating parameter or return value of the %d members of %s is narrower than %s (member templates excepted)' % (n, canon, T)
            ob.status = 'discharged' if not bad else 'failed'
            check.add(ob)
            if bad:
                ob.detail = '; '.join(w for _, w in bad[:3])
                adjudicate_signature(check, low, ob, bad[0][0], canon, T)
        if T == 'long double':
            long_double_accessors(check, Q, T)
    check.extra['signature_members_checked'] = total
    if total < 4000:
        check.error('must-fire: expected >= 4000 members under the signature obligation, found %d' % total)


def adjudicate_signature(check, low, ob, f, canon, T):
    """Native: pass a value that only the instantiation's own type can hold and look for it in the object / result."""
    rec = {'property': 'C17', 'obligation': ob.name, 'function': f.qualname, 'verifier_output': ob.detail, 'confirmed': False}
    try:
        from ..ieeeob import default_includes
        from ..tu import includes
        cpp_t = replay.cpp_record(low, canon)
        nm = f.node.get('name')
        n = len(replay.leaf_types(low, ('rec', canon)))
        args = []
        for pn, pt in f.params[1:]:
            vt = pt[1] if pt[0] in ('ptr', 'ref') else pt
            if vt[0] != 'f':
                raise Unsupported('replay of a %s parameter' % (vt[0],))
            args.append('v')
        if f.kind == 'ctor':
            call = '%s q(%s); const %s* p = reinterpret_cast<const %s*>(&q);' % (cpp_t, ', '.join(args), T, T)
        elif f.kind == 'method' and f.ret == ('void',):
            call = 'alignas(16) unsigned char buf[sizeof(%s)] = {}; %s& q = *reinterpret_cast<%s*>(buf); q.%s(%s); const %s* p = reinterpret_cast<const %s*>(buf);' % (
                cpp_t, cpp_t, cpp_t, nm, ', '.join(args), T, T)
        elif f.kind == 'method' and not args and f.ret[0] == 'f':
            # a getter: fill the object with values only T can hold and look for the returned value among the stored components
            call = ('alignas(16) unsigned char buf[sizeof(%s)] = {}; %s* raw = reinterpret_cast<%s*>(buf); for (int i = 0; i < %d; ++i) raw[i] = (static_cast<%s>(i + 1)) / static_cast<%s>(7); '
                    '%s& q = *reinterpret_cast<%s*>(buf); const %s got = q.%s(); const %s* p = raw; const %s v_ = got; (void)v_;') % (
                        cpp_t, T, T, n, T, T, cpp_t, cpp_t, T, nm, T, T)
            cpp = (includes(default_includes(low, f)) + '#include <cstdio>\nint main() {\n  %s\n'
                   '  bool found = false; for (int i = 0; i < %d; ++i) found = found || p[i] == got;\n'
                   '  if (!found) { std::printf("MISMATCH %s returns %%.21Lg, which is none of the stored %s components (e.g. %%.21Lg)\\n", (long double)got, (long double)p[%d]); return 1; }\n  return 0;\n}\n') % (
                       call, n, f.qualname.replace('"', ''), T, n - 1)
            r, err = replay.build_and_run(cpp, os.path.join(check.work, 'replay'), 'r_' + re.sub(r'\W+', '_', ob.name)[:120])
            if err:
                rec['replay_error'] = err[:600]
            else:
                rec['cpp'], rec['native_output'] = cpp, r.stdout
                if 'MISMATCH' in r.stdout:
                    rec['confirmed'], rec['mismatch'], rec['inputs'] = True, [r.stdout.strip()], {'stored components': 'i/7 in ' + T}
            check.violations.append((ob, write_replay(check, ob, rec), '' if rec['confirmed'] else 'no-failing-input-found'))
            return
        else:
            raise Unsupported('replay of %s' % f.qualname)
        cpp = (includes(default_includes(low, f)) + '#include <cstdio>\nint main() {\n  const %s v = static_cast<%s>(1) / static_cast<%s>(3);\n  %s\n'
               '  bool found = false; for (int i = 0; i < %d; ++i) found = found || p[i] == v;\n'
               '  if (!found) { std::printf("MISMATCH %s with the %s value 1/3: no stored component equals the value passed (first component %%.21Lg, value %%.21Lg)\\n", (long double)p[0], (long double)v); return 1; }\n  return 0;\n}\n') % (
                   T, T, T, call, n, f.qualname.replace('"', ''), T)
        r, err = replay.build_and_run(cpp, os.path.join(check.work, 'replay'), 'r_' + re.sub(r'\W+', '_', ob.name)[:120])
        if err:
            rec['replay_error'] = err[:600]
        else:
            rec['cpp'], rec['native_output'] = cpp, r.stdout
            if 'MISMATCH' in r.stdout:
                rec['confirmed'], rec['mismatch'], rec['inputs'] = True, [r.stdout.strip()], {'v': '1/3 in ' + T}
    except Exception as e:
        rec['replay_error'] = '%s: %s' % (type(e).__name__, e)
    check.violations.append((ob, write_replay(check, ob, rec), '' if rec['confirmed'] else 'no-failing-input-found'))


def long_double_accessors(check, Q, T):
    """long double has no bit-precise model: the accessors and mutators of the long double instantiation are executed
    symbolically - Value() returns the stored components, SetValue(v) / Set_<c>(v) store exactly v in the slot named and
    leave the others, component getters return their slot - and nothing is narrowed below long double on the way."""
    from ..symex import SymEx
    from ..realob import SymCall, leaves
    low = Q.low
    n_ob = 0
    seen_tmpl = set()
    targets = []
    for canon, r in sorted(low.records.items()):
        if not (r.targs and r.targs[-1] == T):
            continue
        if r.template in BASES or r.template in TENSORS:
            if r.template in BASES and r.template in seen_tmpl:
                continue
            seen_tmpl.add(r.template)
            targets.append((canon, r))
    for canon, r in targets:
        comps = None
        if r.template in TENSORS:
            comps = r.fields[0][0].rstrip('_').split('_')
        bad = []
        n = 0
        for f in Q.methods(canon):
            nm = f.node.get('name')
            np_ = len(f.params)
            kind = None
            if nm == 'Value' and np_ == 1:
                kind = 'get-all'
            elif nm == 'SetValue' and np_ == 2:
                kind = 'set-all'
            elif comps and re.match(r'^Set_(\w+)$', nm) and np_ == 2 and sym_index(comps, nm[4:]) is not None:
                kind = ('set', sym_index(comps, nm[4:]))
            elif comps and f.kind == 'method' and np_ == 1 and sym_index(comps, nm) is not None and f.ret[0] == 'f':
                kind = ('get', sym_index(comps, nm))
            if kind is None:
                continue
            try:
                S = SymEx(low)
                sc = SymCall(low, f, symex=S)
            except Unsupported:
                continue
            n += 1
            pre = leaves(sc.pre[f.params[0][0]])
            post = leaves(sc.post[f.params[0][0]])
            why = None
            if kind == 'get-all':
                if leaves(sc.ret) != pre:
                    why = 'does not return the stored components'
            elif kind == 'set-all':
                if post != leaves(sc.pre[f.params[1][0]]):
                    why = 'does not store exactly the value given'
            elif kind[0] == 'set':
                v = leaves(sc.pre[f.params[1][0]])[0]
                want = list(pre)
                want[kind[1]] = v
                if post != want:
                    why = 'does not store exactly the value given in slot %d (or touches another slot)' % kind[1]
            else:
                if leaves(sc.ret) != [pre[kind[1]]]:
                    why = 'does not return slot %d' % kind[1]
            if why is None and S.narrow_bad:
                why = 'narrows a %s value to %s' % (S.narrow_bad[0][1], S.narrow_bad[0][0])
            if why:
                bad.append('%s %s' % (f.qualname, why))
            check.under_contract(f)
        if n == 0:
            continue
        ob = Ob('C17.ld.%s' % (r.template), 'REAL', canon, None)
        ob.backend = 'phqv symex (term identity + precision audit)'
        ob.text = 'long double instantiation of %s: %d accessors / mutators read and write exactly the stored slots (term identity over all values) and narrow nothing' % (r.template, n)
        ob.status = 'discharged' if not bad else 'failed'
        check.add(ob)
        n_ob += n
        if bad:
            ob.detail = '; '.join(bad[:3])
            rec = {'property': 'C17', 'obligation': ob.name, 'function': canon, 'verifier_output': ob.detail, 'confirmed': False}
            check.violations.append((ob, write_replay(check, ob, rec), 'no-failing-input-found'))
    check.extra['long_double_accessors_checked'] = n_ob
    if n_ob < 60:
        check.error('must-fire: expected >= 60 long double accessors / mutators, found %d' % n_ob)
