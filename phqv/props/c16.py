"""C16 - changing floating-point precision casts each component and nothing else."""
import os, re, struct
from fractions import Fraction
from ..core import Ob, pmap
from .. import astload, cemit, replay
from ..lower import Unsupported, tstr
from ..ieeeob import IeeeJob, HarnessJob, param_leaves, cleaves, isnan_fn, run_jobs, rnd, same
from .quant_common import Quant, TENSORS, BASES


def same_exact(a, b):
    try:
        return Fraction(a) == Fraction(b)
    except (TypeError, ValueError, OverflowError):
        return same(a, b)


def cast_py(kind, x):
    """(kind) x, correctly rounded once from the exact source value (never through a Python float: that would round twice)."""
    from ..cemit import round_to
    try:
        fx = Fraction(x)
    except (TypeError, ValueError, OverflowError):
        return rnd(kind, float(x))          # inf / nan
    return float(round_to(fx, kind)) if kind != 'long double' else round_to(fx, kind)


def run(check):
    tier = check.tier
    groups = [('double', ('float', 'long double')), ('float', ('double', 'long double')), ('long double', ('float', 'double'))]
    check.checker_cmd = 'clang++ -ast-dump=json | phqv lower | goto-cc | goto-instrument --dfcc --enforce-contract <converting ctor / operator=> | cbmc --cvc5'
    check.assume('IEEE mode: float<->double conversions as modelled by CBMC (round-to-nearest-even); exact for both directions')
    check.notes.append('the four ordered pairs involving long double are run with CBMC\'s long double (binary128) as a stand-in for x87 80-bit: they establish that each slot is a plain cast of the same source slot (no detour through another type, no slot mix-up); the x87 rounding of long double -> float/double itself is assumed (IEEE round-to-nearest in both formats)')
    check.notes.append('Direction / PlanarDirection converting constructors re-normalise (C10 representation invariant); their converting assignment casts per slot and is checked here')
    jobs = []
    nclasses = 0
    for T, others in groups:
      Q = Quant(check, types=(T,), other_types=others, conv=True, hash_=False)
      low = Q.low
      for O in others:
        tag = '%s_from_%s' % (T.replace(' ', '_'), O.replace(' ', '_'))
        classes = list(TENSORS) + [c for c in Q.names if c not in TENSORS]
        for cls in classes:
            canon, src = Q.canon(cls, T), Q.canon(cls, O)
            if canon not in low.records or src not in low.records:
                if cls in BASES:
                    continue
                check.error('C16: %s or %s not instantiated' % (canon, src))
                continue
            found = {'ctor': None, 'operator=': None}
            for f in Q.methods(canon):
                ps = f.params
                if len(ps) == 2 and ps[1][1] == ('ptr', ('rec', src)):
                    if f.kind == 'ctor':
                        found['ctor'] = f
                    elif f.node.get('name') == 'operator=':
                        found['operator='] = f
            if cls in BASES and not any(found.values()):
                continue
            nclasses += 1
            for what, f in found.items():
                if f is None:
                    compile_probe(check, Q, cls, T, O, what)
                    continue
                if what == 'ctor' and cls in ('Direction', 'PlanarDirection'):
                    continue
                pl = param_leaves(low, f)
                dst, s = pl['self'], pl[f.params[1][0]]
                if len(dst) != len(s):
                    check.error('C16: %s and %s have different component counts' % (canon, src))
                    continue
                isn = isnan_fn(T)
                ens = ['(%s == (%s)%s) || (%s(%s) && %s(%s))' % (d, T, x, isn, d, isnan_fn(O), x) for d, x in zip(dst, s)]

                def pred(w, out, run, f=f, T=T, what=what):
                    src_v = w[f.params[1][0]]
                    got = out.get('RET') if what == 'ctor' else out.get('POST self')
                    if got is None:
                        return []
                    bad = []
                    for i, (x, y) in enumerate(zip(src_v, got)):
                        if not same_exact(cast_py(T, x), y):
                            bad.append('component %d: source %s, cast gives %s, stored %s' % (i, float(x), cast_py(T, x), float(y)))
                    return bad
                j = IeeeJob(check, 'C16.cast.%s.%s.%s' % (cls, 'ctor' if what == 'ctor' else 'assign', tag), low, f, ensures=ens,
                            assigns='__CPROVER_assigns(*self)', backend=(['sat'] if 'long double' in (T, O) else ['cvc5', 'sat']), timeout=120, predicate=pred)
                j.gen = gen_vals
                j.search_tries = 16
                jobs.append(j)
                check.under_contract(f)
    # widening then narrowing is the identity (per-slot casts compose)
    h = 'void harness(void) { float x; __CPROVER_assume(!__CPROVER_isnanf(x)); __CPROVER_assert((float)(double)x == x, "widen then narrow is the identity"); }\n'
    class Dummy:
        pass
    hj = HarnessJob(check, 'C16.widen.float_double_float', low, [], h, 1, function='(float)(double)x', backend='sat')
    jobs.append(hj)
    check.extra['classes_seen'] = nclasses
    check.log('%d obligations' % len(jobs))
    run_jobs(check, jobs)


TRICKY = [Fraction(1) + Fraction(1, 2 ** 24) + Fraction(1, 2 ** 60),      # just above a float midpoint, by less than half a double ulp
          -(Fraction(1) + Fraction(1, 2 ** 24) + Fraction(1, 2 ** 60)),
          Fraction(3) + Fraction(1, 2 ** 22) + Fraction(1, 2 ** 58),
          Fraction(1) + Fraction(1, 2 ** 53) + Fraction(1, 2 ** 63),      # just above a double midpoint (long double source)
          Fraction(1, 3), Fraction(2, 3)]


def gen_vals(rndm, lt):
    """Search inputs for the native refutation: ordinary values, and values next to rounding midpoints of the narrower types
    (a component routed through an intermediate type is rounded twice there)."""
    if lt[0] == 'f':
        if rndm.random() < 0.5:
            from ..cemit import round_to
            return round_to(rndm.choice(TRICKY), lt[1])
        return Fraction(rndm.choice(['0.1', '1e10', '-3.3', '1.0000000001', '123456789.123', '-1e-30', '7']))
    return 0


def compile_probe(check, Q, cls, T, O, what):
    """The converting member has no instantiated body in the AST: decide with the real compiler
    whether Q<T> can be constructed / assigned from Q<O> at all."""
    import subprocess, json
    from ..ieeeob import write_replay
    hdr = dict(Q.class_list)[cls]
    stmt = 'PhQ::%s<%s> d(s); (void)d;' % (cls, T) if what == 'ctor' else 'd = s;'
    cpp = '#include <%s>\nvoid probe(PhQ::%s<%s>& d, const PhQ::%s<%s>& s) { %s }\n' % (hdr, cls, T, cls, O, stmt)
    ob = Ob('C16.cast.%s.%s.%s_from_%s' % (cls, 'ctor' if what == 'ctor' else 'assign', T.replace(' ', '_'), O.replace(' ', '_')), 'static',
            'PhQ::%s<%s> converting %s' % (cls, T, what), hdr)
    ob.backend = 'g++ -fsyntax-only'
    ob.text = cpp
    wd = os.path.join(check.work, 'probe')
    os.makedirs(wd, exist_ok=True)
    src = os.path.join(wd, re.sub(r'\W+', '_', ob.name) + '.cpp')
    open(src, 'w').write(cpp)
    r = subprocess.run(['g++', '-std=c++17', '-fsyntax-only', '-I' + astload.INC, src], capture_output=True, text=True)
    check.add(ob)
    if r.returncode == 0:
        ob.status, ob.detail = 'error', 'g++ accepts the conversion but no instantiated body was found in the AST (extraction fault)'
        return
    ob.status = 'failed'
    errs = [l for l in r.stderr.split('\n') if 'error' in l][:4]
    ob.detail = 'does not compile: ' + ' | '.join(errs)
    rec = {'property': 'C16', 'obligation': ob.name, 'function': ob.function, 'source': hdr, 'verifier_output': ob.detail,
           'cpp': cpp, 'compile_only': True, 'confirmed': True, 'compiler_output': r.stderr[-3000:],
           'mismatch': ['PhQ::%s<%s> cannot be %s from PhQ::%s<%s>: the member template does not compile' % (cls, T, 'constructed' if what == 'ctor' else 'assigned', cls, O)]}
    check.violations.append((ob, write_replay(check, ob, rec), ''))
