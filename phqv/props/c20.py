"""C20 - no exceptions and no undefined behaviour on any finite input.

What contracts can decide here, and how:
  lookup   every table lookup in the library (find()->second, .at(), std::function dispatch) hits, for every
           enumerator of the declared range: assertions generated into the C text of the table helpers, discharged by
           CBMC on the extracted entry points with the enumerator parameters symbolic over the declared range.
  ub       CBMC's own safety obligations (array bounds, pointer validity, signed overflow, shift width, integer division
           by zero, float->int conversion range) on the extracted C of every function CBMC can take (no contract needed:
           the obligations are generated per operation), all inputs symbolic.
  init     no constructor / member / operator reads an indeterminate value or leaves a component indeterminate: symbolic
           execution of the instantiated bodies with the object under construction starting as UNDEF.
  parse    the number parsers are total: every call that can throw (std::stof/stod/stold) sits in a try block whose
           catch-all handler returns without throwing; no throw expression anywhere in the library; every other
           potentially-throwing library call (.at, .value, substr ...) is a proved lookup.  These are structural facts of
           the AST (the throwing behaviour of libstdc++ is an assumed contract)."""
import os, re, json
from ..core import Ob, pmap
from .. import astload, cemit, cbmc, replay
from ..lower import Unsupported, tstr
from ..symex import SymEx, State, Ptr, UNDEF
from ..realob import SymCall, leaves
from ..ieeeob import write_replay, default_includes
from .units_common import Units
from .quant_common import Quant, TENSORS, BASES

UBFLAGS = ['--bounds-check', '--pointer-check', '--signed-overflow-check', '--undefined-shift-check', '--div-by-zero-check',
           '--pointer-overflow-check', '--slice-formula']
LOOKUP_FUNCS = ('Abbreviation', 'ParseEnumeration', 'ConsistentUnit', 'RelatedUnitSystem', 'ConvertInPlace')


def scan_lib(x, acc):
    if isinstance(x, (tuple, list)):
        if len(x) >= 3 and x[0] == 'lib' and isinstance(x[2], str) and x[2].startswith(('table_', 'iter_')):
            acc.add(x[2])
        for y in x:
            scan_lib(y, acc)


def has_loop(x):
    if isinstance(x, (tuple, list)):
        if x and x[0] in ('for', 'while', 'do'):
            return True
        return any(has_loop(y) for y in x)
    return False


def instantiated_functions(a, low):
    """FunctionDecl / CXXMethodDecl nodes with a body that are not uninstantiated templates and not our own uses."""
    for o in a.walk():
        if o.get('kind') in ('FunctionDecl', 'CXXMethodDecl', 'CXXConstructorDecl', 'CXXConversionDecl') and low.has_body(o) and not low._in_use_ns(o):
            par = a.up(o)
            if par is not None and par.get('kind') == 'FunctionTemplateDecl' and not any(x.get('kind') == 'TemplateArgument' for x in o.get('inner', ())):
                continue
            if a.byid.get(o['id']) is not o:
                continue
            yield o


def enum_range(low, t):
    vals = [v for _, v in low.enums[t[1]].enumerators]
    return min(vals), max(vals)


def harness_for(E, low, funcs):
    """One harness calling each function once on unconstrained inputs (enumerators constrained to the declared range)."""
    h = ['void harness(void) {']
    for f in funcs:
        h.append('  {')
        args = []
        for i, (pn, pt) in enumerate(f.params):
            vt = pt[1] if pt[0] == 'ptr' else pt
            h.append('    %s in%d_%s;' % (E.ctype(vt), i, pn))
            if vt[0] == 'enum' and vt[1] in low.enums:
                lo, hi = enum_range(low, vt)
                h.append('    __CPROVER_assume(in%d_%s >= %d && in%d_%s <= %d);' % (i, pn, lo, i, pn, hi))
            args.append(('&in%d_%s' if pt[0] == 'ptr' else 'in%d_%s') % (i, pn))
        h.append('    %s(%s);' % (f.cname, ', '.join(args)))
        h.append('  }')
    h.append('}')
    return '\n'.join(h) + '\n'


def run(check):
    tier = check.tier
    T = 'double'
    check.checker_cmd = 'clang++ -ast-dump=json | phqv tables/lower | goto-cc | cbmc (MiniSat) with generated lookup-hits assertions and ' + ' '.join(UBFLAGS) + ' ; phqv symex (indeterminate-value tracking) ; AST structure of try/catch and throwing calls'
    check.assume('libstdc++ contracts: std::stof/stod/stold throw only exceptions (std::invalid_argument, std::out_of_range), caught by a catch-all handler; std::map/unordered_map::find, string appends, stream insertions and std::to_string throw nothing but std::bad_alloc; std::map abstract function (first equal key wins)')
    check.assume('floating-point operations have IEEE semantics (no trap, division by zero and overflow give inf/nan): they are not undefined behaviour on the supported platforms')
    check.notes.append('the property quantifies over "every API call exercised by the other properties\' harnesses": the functions taken here are the instantiations present in the units and quantities translation units for double; functions outside the C subset of the extractor (strings, streams, std::vector copies) are not under the ub obligations and are listed in the evidence as skipped')
    units = Units(check, types=[T], shapes=True, model_type=True)
    lookup_obligations(check, units, T)
    parse_obligations(check, units)
    Q = Quant(check, types=(T,), other_types=(), conv=False, hash_=True)
    ub_obligations(check, units, Q, T)
    init_obligations(check, Q, T)
    model_init_obligations(check, T)
    model_ub_obligations(check, T)


# ----------------------------------------------------------------------------------------------------------- lookups
def lookup_obligations(check, units, T):
    low, a = units.low, units.ast
    groups = {}
    others = []
    for o in instantiated_functions(a, low):
        try:
            f = low.lower_func(o)
        except (Unsupported, KeyError):
            continue              # uninstantiated patterns / members of records that are not indexed
        acc = set()
        scan_lib(f.body, acc)
        if not acc:
            continue
        nm = o.get('name')
        if nm not in LOOKUP_FUNCS:
            others.append(f)
            continue
        # group by the enumeration the function is instantiated for
        en = None
        for pn, pt in f.params:
            vt = pt[1] if pt[0] == 'ptr' else pt
            if vt[0] == 'enum':
                en = vt[1]
        if en is None:
            vt = f.ret
            if vt[0] == 'opt' and vt[1][0] == 'enum':
                en = vt[1][1]
            elif vt[0] == 'enum':
                en = vt[1]
        groups.setdefault(en, []).append(f)
    ob = Ob('C20.lookup.sites', 'static', 'all instantiated functions', 'include/PhQ')
    ob.backend = 'lowered IR scan'
    nsites = sum(len(v) for v in groups.values())
    ob.text = 'every function that contains a table lookup is one of %s (%d instantiations over %d enumeration types); each of them is under a lookup-hits obligation below' % (
        ', '.join(LOOKUP_FUNCS), nsites, len(groups))
    ob.status = 'discharged' if not others and None not in groups and nsites >= 350 else 'error'
    if ob.status != 'discharged':
        ob.detail = 'lookup sites outside the covered set: %s; sites=%d' % ([f.qualname for f in others][:6], nsites)
    check.add(ob)
    check.extra['lookup_sites'] = nsites
    jobs = sorted((en, fs) for en, fs in groups.items() if en is not None)

    def go(j):
        en, fs = j
        short = en.replace('Unit::', '').replace('::', '_')
        name = 'C20.lookup.%s' % short
        ob = Ob(name, 'IEEE', ', '.join(sorted(set(f.node.get('name') for f in fs))) + '<%s>' % en,
                'include/PhQ/%s.hpp' % (en.replace('::', '/') if en.startswith('Unit::') else en.split('::')[0]))
        try:
            E = cemit.CEmitter(low)
            # conversion loop routines are irrelevant to whether the lookup hits: left bodyless (havoc)
            stubbed, stubs = [], []
            if en in units.unit_types:
                for d in ('To', 'From'):
                    for lf in units.loop_funcs(en, T, d).values():
                        stubbed.append(lf.cname)
                        stubs.append('%s { }' % E.proto(lf))
            txt = E.unit(fs, bodyless=stubbed) + '\n'.join(stubs) + '\n' + harness_for(E, low, fs)
            r = cbmc.verify(txt, os.path.join(check.work, 'cbmc'), re.sub(r'\W+', '_', name), backend='sat', timeout=600, flags=UBFLAGS, unwind=12)
            ob.seconds, ob.backend = r.seconds, r.backend
            hits = [p for p in r.props if 'lookup hits' in p[2]]
            lo, hi = enum_range(low, ('enum', en))
            ob.text = 'for every enumerator value in [%d, %d] (and every system of units / string where those are parameters): each of the %d lookups in %s dereferences a valid entry; std::function rows are callable; plus CBMC safety obligations (%d properties)' % (
                lo, hi, len(hits), ', '.join(f.qualname for f in fs)[:300], len(r.props))
            if r.status == 'ok':
                names = [f.node.get('name') for f in fs]
                # one assertion per generated table helper (shared by all call sites of that table)
                expected = ('Abbreviation' in names) + 2 * ('ConvertInPlace' in names) + names.count('ConsistentUnit')
                if len(hits) < expected:
                    ob.status, ob.detail = 'error', 'vacuity: only %d lookup-hits assertions, expected at least %d' % (len(hits), expected)
                else:
                    ob.status = 'discharged'
            elif r.status == 'failed':
                ob.status = 'failed'
                ob.detail = 'cbmc FAILURE: ' + '; '.join('%s (%s)' % (p[0], p[2][:90]) for p in r.failed()[:5])
                ob.cex = r.trace
            else:
                ob.status, ob.detail = 'undecided', '%s %s' % (r.status, r.note[:300])
        except Unsupported as e:
            ob.status, ob.detail = 'error', 'Unsupported: %s' % e
        return ob
    for j, ob in zip(jobs, pmap(go, jobs)):
        check.add(ob)
        for f in j[1]:
            check.under_contract(f)
        if ob.status == 'failed':
            adjudicate_lookup(check, units, j, ob)


def cpp_enum(en):
    return 'PhQ::' + en


def header_of(en):
    if en.startswith('Unit::'):
        return 'PhQ/Unit/%s.hpp' % en.split('::')[1]
    if en == 'UnitSystem':
        return 'PhQ/UnitSystem.hpp'
    return 'PhQ/ConstitutiveModel.hpp'


def adjudicate_lookup(check, units, j, ob):
    """Native, under ASan/UBSan and libstdc++ assertions: call every lookup-bearing function for every enumerator."""
    en, fs = j
    low = units.low
    lo, hi = enum_range(low, ('enum', en))
    E = cpp_enum(en)
    body = '  for (int i = %d; i <= %d; ++i) {\n    const auto e = static_cast<%s>(i);\n    std::printf("enumerator %%d\\n", i); std::fflush(stdout);\n' % (lo, hi, E)
    names = set(f.node.get('name') for f in fs)
    if 'Abbreviation' in names:
        body += '    { volatile std::size_t n = PhQ::Abbreviation(e).size(); (void)n; }\n'
    if 'RelatedUnitSystem' in names:
        body += '    (void)PhQ::RelatedUnitSystem(e);\n'
    if 'ConvertInPlace' in names:
        body += ('    for (int k = %d; k <= %d; ++k) { double x = 1.5; PhQ::ConvertInPlace(x, e, static_cast<%s>(k));\n'
                 '      std::vector<double> none; PhQ::ConvertInPlace(none, e, static_cast<%s>(k)); std::vector<double> some{1.5, -2.5, 3.5}; PhQ::ConvertInPlace(some, e, static_cast<%s>(k));\n'
                 '      std::array<double, 3> arr{1.5, -2.5, 3.5}; PhQ::ConvertInPlace(arr, e, static_cast<%s>(k)); }\n') % (lo, hi, E, E, E, E)
    body += '  }\n'
    if 'ConsistentUnit' in names:
        body += '  for (int s = 0; s <= 3; ++s) { std::printf("system %%d\\n", s); std::fflush(stdout); (void)PhQ::ConsistentUnit<%s>(static_cast<PhQ::UnitSystem>(s)); }\n' % E
    cpp = '// built with -fsanitize=address,undefined\n#define _GLIBCXX_DEBUG 1\n#define _GLIBCXX_ASSERTIONS 1\n#include <%s>\n#include <PhQ/Unit.hpp>\n#include <PhQ/UnitSystem.hpp>\n#include <cstdio>\n#include <vector>\n#include <array>\nint main() {\n%s  std::printf("done\\n");\n  return 0;\n}\n' % (header_of(en), body)
    rec = {'property': 'C20', 'obligation': ob.name, 'function': ob.function, 'source': ob.loc, 'verifier_output': ob.detail, 'cpp': cpp}
    confirmed = False
    r, err = replay.build_and_run(cpp, os.path.join(check.work, 'replay'), 'r_' + re.sub(r'\W+', '_', ob.name), sanitize=True)
    if err:
        rec['replay_error'] = err[:800]
    else:
        rec['native_output'] = r.stdout[-400:]
        rec['native_stderr'] = r.stderr[-1200:]
        if r.returncode != 0 or 'done' not in r.stdout:
            confirmed = True
            last = [l for l in r.stdout.strip().split('\n') if l][-1:] or ['']
            rec['mismatch'] = ['the program did not run to completion (exit %s); last line printed: %s; %s' % (r.returncode, last[0], (r.stderr.strip().split('\n') or [''])[0][:300])]
            rec['inputs'] = {'last': last[0]}
    rec['confirmed'] = confirmed
    check.violations.append((ob, write_replay(check, ob, rec), '' if confirmed else 'no-failing-input-found'))


# ------------------------------------------------------------------------------------------------------------- parse
MAY_THROW_FREE = {'stof', 'stod', 'stold', 'stoi', 'stol', 'stoll', 'stoul', 'stoull', 'any_cast', 'rethrow_exception', 'terminate', 'abort', 'exit', 'get'}
MAY_THROW_MEMBER = {'at', 'value', 'substr', 'erase', 'replace', 'insert', 'resize', 'reserve'}


def callee_name(a, call):
    """Name of the library function a CallExpr / CXXMemberCallExpr calls if it is one of the potentially throwing ones
    (free functions and member functions are told apart; functions declared in namespace PhQ are not library functions)."""
    inner = call.get('inner', ())
    if not inner:
        return None
    stack = [inner[0]]
    while stack:
        x = stack.pop()
        if x.get('kind') == 'MemberExpr':
            d = a.byid.get(x.get('referencedMemberDecl'))
            if d is not None:
                return None          # a member declared in the library itself
            return x.get('name') if x.get('name') in MAY_THROW_MEMBER else None
        if x.get('kind') == 'DeclRefExpr':
            rd = x.get('referencedDecl') or {}
            if a.byid.get(rd.get('id')) is not None:
                return None
            return rd.get('name') if rd.get('name') in MAY_THROW_FREE else None
        stack.extend(x.get('inner', ())[:1])
    return None


def parse_obligations(check, units):
    a, low = units.ast, units.low
    # 1. no throw expression anywhere in the library
    throws = []
    for o in a.walk():
        if o.get('kind') == 'CXXThrowExpr':
            throws.append(o)
    ob = Ob('C20.throw.none', 'static', 'namespace PhQ', 'include/PhQ')
    ob.backend = 'AST scan'
    ob.text = 'no throw expression in any function of namespace PhQ (units translation unit, all unit types)'
    ob.status = 'discharged' if not throws else 'failed'
    if throws:
        ob.detail = '%d throw expressions, first at line %s' % (len(throws), (throws[0].get('range', {}).get('begin', {}) or {}).get('line'))
        rec = {'property': 'C20', 'obligation': ob.name, 'verifier_output': ob.detail, 'confirmed': False}
        check.violations.append((ob, write_replay(check, ob, rec), 'no-failing-input-found'))
    check.add(ob)
    # 2. every potentially throwing call is guarded
    parsers = []
    unguarded = []
    ncalls = 0

    def walk(node, guards, fn):
        nonlocal ncalls
        k = node.get('kind')
        if k == 'CXXTryStmt':
            kids_ = node.get('inner', ())
            handlers = [c for c in kids_ if c.get('kind') == 'CXXCatchStmt']
            catch_all = [h for h in handlers if not any(c.get('kind') == 'VarDecl' for c in h.get('inner', ()))]
            ok = bool(catch_all)
            for h in handlers:
                walk(h, guards, fn)         # handlers run unguarded
            for c in kids_:
                if c.get('kind') != 'CXXCatchStmt':
                    walk(c, guards + [ok], fn)
            return
        if k in ('CallExpr', 'CXXMemberCallExpr'):
            nm = callee_name(a, node)
            if nm is not None:
                ncalls += 1
                if not any(guards):
                    unguarded.append((fn, nm, node))
        for c in node.get('inner', ()):
            if isinstance(c, dict):
                walk(c, guards, fn)
    funcs = 0
    for o in a.walk():
        if o.get('kind') in ('FunctionDecl', 'CXXMethodDecl', 'CXXConstructorDecl') and low.has_body(o) and not low._in_use_ns(o) and low._is_phq_decl(o):
            funcs += 1
            if o.get('name') == 'ParseNumber':
                parsers.append(o)
            walk(o, [], o)
    # .at() inside ConsistentUnit is a proved lookup (C20.lookup.*)
    rest = [(fn, nm, n) for fn, nm, n in unguarded if not (nm == 'at' and fn.get('name') == 'ConsistentUnit')]
    ob = Ob('C20.throw.calls', 'static', 'namespace PhQ', 'include/PhQ')
    ob.backend = 'AST scan'
    ob.text = 'every call of a potentially throwing library function (%s) in %d function bodies is inside a try block with a catch-all handler, or is the map::at of ConsistentUnit whose key is proved present (C20.lookup.*): %d such calls found' % (
        ', '.join(sorted(MAY_THROW_FREE | MAY_THROW_MEMBER)), funcs, ncalls)
    ob.status = 'discharged' if not rest else 'failed'
    if funcs < 1000 or ncalls < 3:
        ob.status, ob.detail = 'error', 'must-fire: %d functions, %d potentially throwing calls seen' % (funcs, ncalls)
    elif rest:
        ob.detail = 'unguarded: ' + '; '.join('%s in %s (line %s)' % (nm, fn.get('name'), (n.get('range', {}).get('begin', {}) or {}).get('line')) for fn, nm, n in rest[:5])
    check.add(ob)
    if ob.status == 'failed':
        replay_parsers(check, ob)
    # 2b. a std::string_view is a (pointer, length) pair without a terminator: its data() pointer must not be handed to anything
    #     that measures the string by its terminator (a const char* -> string / string_view conversion reads past size())
    views = []
    for o in a.walk():
        if o.get('kind') in ('FunctionDecl', 'CXXMethodDecl') and low.has_body(o) and not low._in_use_ns(o) and low._is_phq_decl(o):
            for x in a.walk(o):
                if x.get('kind') == 'CXXMemberCallExpr':
                    inner = x.get('inner', ())
                    if inner and inner[0].get('kind') == 'MemberExpr' and inner[0].get('name') in ('data', 'begin', 'cbegin') and \
                            'basic_string_view' in ((inner[0].get('inner') or [{}])[0].get('type', {}).get('qualType', '') + (inner[0].get('inner') or [{}])[0].get('type', {}).get('desugaredQualType', '')):
                        if inner[0].get('name') == 'data':
                            views.append((o, x))
    ob = Ob('C20.parse.view-bounds', 'static', 'namespace PhQ', 'include/PhQ')
    ob.backend = 'AST scan'
    ob.text = 'no function of the library takes the data() pointer of a std::string_view (a view carries no terminator: anything that measures the string by its terminator reads past size()); parsing works on the view itself'
    ob.status = 'discharged' if not views else 'failed'
    check.add(ob)
    if views:
        fn = views[0][0]
        ob.detail = '%s calls data() on a std::string_view (line %s)' % (fn.get('name'), (views[0][1].get('range', {}).get('begin', {}) or {}).get('line'))
        cpp = ('// built with -fsanitize=address,undefined\n#include <PhQ/Unit/Time.hpp>\n#include <PhQ/UnitSystem.hpp>\n#include <cstdio>\n#include <vector>\n#include <string_view>\nint main() {\n'
               '  int bad = 0;\n'
               '  { const char buffer[] = "hr, 10 min"; const std::string_view token(buffer, 2);   // "hr", followed by more text\n'
               '    const auto r = PhQ::ParseEnumeration<PhQ::Unit::Time>(token); if (!r.has_value() || r.value() != PhQ::Unit::Time::Hour) { std::printf("MISMATCH the 2-byte view \\"hr\\" inside a longer buffer does not parse to Hour\\n"); std::fflush(stdout); bad++; } }\n'
               '  { const std::string_view token("s\\0x", 3);   // embedded NUL: not an accepted spelling\n'
               '    if (PhQ::ParseEnumeration<PhQ::Unit::Time>(token).has_value()) { std::printf("MISMATCH the 3-byte string s,NUL,x parses to a unit\\n"); std::fflush(stdout); bad++; } }\n'
               '  { std::vector<char> v{\'h\', \'r\'}; v.shrink_to_fit(); const std::string_view token(v.data(), v.size());   // no terminator anywhere: ASan sees the over-read\n'
               '    (void)PhQ::ParseEnumeration<PhQ::Unit::Time>(token); }\n'
               '  return bad ? 1 : 0;\n}\n')
        rec = {'property': 'C20', 'obligation': ob.name, 'function': fn.get('name'), 'verifier_output': ob.detail, 'cpp': cpp, 'confirmed': False}
        r, err = replay.build_and_run(cpp, os.path.join(check.work, 'replay'), 'r_' + re.sub(r'\W+', '_', ob.name), sanitize=True)
        if err:
            rec['replay_error'] = err[:600]
        else:
            rec['native_output'], rec['native_stderr'] = r.stdout[-800:], r.stderr[-800:]
            if 'MISMATCH' in r.stdout or r.returncode != 0:
                rec['confirmed'] = True
                rec['mismatch'] = (r.stdout.strip().split('\n') if 'MISMATCH' in r.stdout else []) + ([l[:220] for l in r.stderr.split('\n') if 'ERROR: AddressSanitizer' in l or 'runtime error' in l][:2] if r.returncode != 0 else [])
                rec['inputs'] = {'views': 'a prefix of a longer buffer; embedded NUL; unterminated heap buffer'}
        check.violations.append((ob, write_replay(check, ob, rec), '' if rec['confirmed'] else 'no-failing-input-found'))
    # 3. the number parsers: one try block whose catch-all handler returns and does not throw; result assigned in the try
    seen = 0
    for o in parsers:
        T = o['type']['qualType']
        m = re.search(r'optional<([\w ]+)>', T)
        if not m or not any(x.get('kind') == 'TemplateArgument' for x in o.get('inner', ())) and 'NumericType' in T:
            continue
        tn = m.group(1)
        seen += 1
        ob = Ob('C20.parse.total.%s' % tn.replace(' ', '_'), 'static', 'ParseNumber<%s>' % tn, 'include/PhQ/Base.hpp:%s' % ((o.get('loc') or {}).get('line') or ''))
        ob.backend = 'AST structure'
        bad = []
        body = [c for c in o.get('inner', ()) if c.get('kind') == 'CompoundStmt']
        trys = [x for x in a.walk(body[0])] if body else []
        trys = [x for x in trys if x.get('kind') == 'CXXTryStmt']
        if len(trys) != 1:
            bad.append('%d try blocks' % len(trys))
        else:
            hs = [c for c in trys[0].get('inner', ()) if c.get('kind') == 'CXXCatchStmt']
            call = [h for h in hs if not any(c.get('kind') == 'VarDecl' for c in h.get('inner', ()))]
            if not call:
                bad.append('no catch-all handler: exceptions of other types escape')
            for h in hs:
                sub = list(a.walk(h))
                if any(x.get('kind') == 'CXXThrowExpr' for x in sub):
                    bad.append('a handler throws')
                if any(x.get('kind') in ('CallExpr', 'CXXMemberCallExpr') and callee_name(a, x) is not None for x in sub):
                    bad.append('a handler calls a throwing function')
                comp = [c for c in h.get('inner', ()) if c.get('kind') == 'CompoundStmt']
                last = (comp[0].get('inner', ()) or [{}])[-1] if comp else {}
                if last.get('kind') != 'ReturnStmt':
                    bad.append('a handler falls through to the code that reads the (unassigned) result')
            # every potentially throwing call of the body is inside the try
            outside = []
            intry = set(id(x) for x in a.walk(trys[0]))
            for x in a.walk(body[0]):
                if x.get('kind') in ('CallExpr', 'CXXMemberCallExpr') and callee_name(a, x) is not None and id(x) not in intry:
                    outside.append(callee_name(a, x))
            if outside:
                bad.append('throwing calls outside the try block: %s' % outside)
        ob.text = 'ParseNumber<%s>: the conversion call is inside the only try block; its handlers include a catch-all, none throws or calls a throwing function, each ends in a return (so the result variable is only read after it was assigned)' % tn
        ob.status = 'discharged' if not bad else 'failed'
        if bad:
            ob.detail = '; '.join(bad)
        check.add(ob)
        if bad:
            replay_parsers(check, ob, tn)
    if seen != 3:
        check.error('must-fire: expected 3 ParseNumber specialisations, found %d' % seen)


NASTY = ['', ' ', 'abc', '1e999', '-1e999', '1e-999', '1e99999999999999999999', 'nan', 'inf', '-', '+', '.', 'e', '1e', '0x', '0x1p99999', '1.5abc', '\\xff\\xfe', '\\x00', '1\\x002',
         '9' * 400, '0.' + '0' * 400 + '1', '١٢٣', '--1', '1e+', '1e-', 'infinity', 'nan(abc)', '\\n1', '1 2']


def replay_parsers(check, ob, tn=None):
    types = [tn] if tn else ['float', 'double', 'long double']
    lits = ', '.join('std::string("%s", %d)' % (s, len(bytes(s, 'utf-8').decode('unicode_escape').encode('latin-1', 'ignore')) if '\\x' in s or '\\n' in s else len(s.encode('utf-8'))) for s in NASTY)
    body = ''
    for t in types:
        body += ('  for (const std::string& s : inputs) { std::printf("ParseNumber<%s>(%%zu bytes: \\"%%s\\")\\n", s.size(), s.c_str()); std::fflush(stdout);\n'
                 '    try { const std::optional<%s> r = PhQ::ParseNumber<%s>(s); if (r.has_value()) { volatile %s v = r.value(); (void)v; } }\n'
                 '    catch (...) { std::printf("EXCEPTION escaped\\n"); bad++; } }\n') % (t, t, t, t)
    cpp = '#include <PhQ/Base.hpp>\n#include <cstdio>\n#include <string>\n#include <vector>\n#include <optional>\nint main() {\n  const std::vector<std::string> inputs = {%s};\n  int bad = 0;\n%s  return bad ? 1 : 0;\n}\n' % (lits, body)
    rec = {'property': 'C20', 'obligation': ob.name, 'function': ob.function, 'source': ob.loc, 'verifier_output': ob.detail, 'cpp': cpp}
    confirmed = False
    r, err = replay.build_and_run(cpp, os.path.join(check.work, 'replay'), 'r_' + re.sub(r'\W+', '_', ob.name), sanitize=True)
    if err:
        rec['replay_error'] = err[:800]
    else:
        rec['native_output'] = r.stdout[-1500:]
        rec['native_stderr'] = r.stderr[-800:]
        if r.returncode != 0:
            confirmed = True
            lines = r.stdout.strip().split('\n')
            idx = [i for i, l in enumerate(lines) if 'EXCEPTION' in l]
            what = lines[idx[0] - 1] if idx else (lines[-1] if lines else '')
            rec['mismatch'] = ['%s: %s' % (what, 'an exception escaped' if idx else 'abnormal termination: ' + r.stderr.strip().split('\n')[0][:200])]
            rec['inputs'] = {'call': what}
    rec['confirmed'] = confirmed
    check.violations.append((ob, write_replay(check, ob, rec), '' if confirmed else 'no-failing-input-found'))


# ---------------------------------------------------------------------------------------------------------------- ub
def ub_group(check, low, j):
    key, fs = j
    name = 'C20.ub.%s' % re.sub(r'[^\w.#<>,:]+', '', key)
    ob = Ob(name, 'IEEE', key, None)
    good, dropped = [], []
    E = None
    # functions outside the C subset are dropped one by one (recorded), the rest is checked
    for f in fs:
        try:
            E1 = cemit.CEmitter(low)
            nobody = [g.qualname for g in E1.closure([f]) if g.body is None]
            if nobody:
                dropped.append((f.qualname, 'calls %s, which is outside the C subset' % nobody[0]))
                continue
            E1.unit([f])
            good.append(f)
        except Unsupported as e:
            dropped.append((f.qualname, str(e)[:80]))
        except Exception as e:
            dropped.append((f.qualname, '%s: %s' % (type(e).__name__, str(e)[:80])))
    if not good:
        ob.status, ob.detail = 'skipped', 'no function of this group is in the C subset'
        return ob, dropped, 0
    try:
        E = cemit.CEmitter(low)
        E.domain_asserts = False      # sqrt/acos of an out-of-domain argument is NaN, not undefined behaviour
        E.abstract_sqrt = True        # values of square roots are irrelevant to the safety obligations
        txt = E.unit(good) + harness_for(E, low, good)
        r = cbmc.verify(txt, os.path.join(check.work, 'cbmc'), re.sub(r'\W+', '_', name), backend='sat', timeout=900, flags=UBFLAGS, unwind=12)
        ob.seconds, ob.backend = r.seconds, r.backend
        ob.text = '%d functions of %s on unconstrained inputs: %d safety properties generated by cbmc (%s) all hold' % (len(good), key, len(r.props), ' '.join(UBFLAGS))
        if r.status == 'ok':
            ob.status = 'discharged'
        elif r.status == 'failed':
            ob.status = 'failed'
            ob.detail = 'cbmc FAILURE: ' + '; '.join('%s (%s)' % (p[0], p[2][:100]) for p in r.failed()[:5])
            ob.cex = r.trace
        else:
            ob.status, ob.detail = 'undecided', '%s %s' % (r.status, r.note[:300])
    except Unsupported as e:
        ob.status, ob.detail = 'error', 'Unsupported: %s' % e
    return ob, dropped, len(good)


def ub_obligations(check, units, Q, T):
    """CBMC safety obligations on the extracted C of every function it can take, grouped per class."""
    low = Q.low
    groups = {}
    skipped = {}
    for canon, r in sorted(low.records.items()):
        if r.targs and r.targs[-1] != T and r.template not in (None,):
            continue
        fs = []
        for f in Q.methods(canon):
            if has_loop(f.body):
                skipped[f.qualname] = 'loop (covered by C02.loop.* for the conversion routines)'
                continue
            fs.append(f)
        if fs:
            groups[canon] = fs
    for nm, why in Q.skipped:
        skipped[nm] = why
    hs = []
    for canon, (node, t) in sorted(Q.hash_ops().items()):
        try:
            hs.append(low.lower_func(node))
        except Unsupported as e:
            skipped['std::hash<%s>' % canon] = str(e)
    if hs:
        for i in range(0, len(hs), 12):
            groups['std::hash#%d' % (i // 12)] = hs[i:i + 12]
    free = [f for f in Q.free_functions() if not has_loop(f.body)]
    for i in range(0, len(free), 40):
        groups['free#%d' % (i // 40)] = free[i:i + 40]
    jobs = sorted(groups.items())
    check.extra['ub_groups'] = len(jobs)

    def go(j):
        return ub_group(check, low, j)
    nf = 0
    alldropped = []
    for j, (ob, dropped, n) in zip(jobs, pmap(go, jobs)):
        nf += n
        alldropped += dropped
        if ob.status == 'skipped':
            continue
        check.add(ob)
        if ob.status == 'failed':
            adjudicate_ub(check, low, ob, j[1])
    check.extra['ub_functions_checked'] = nf
    check.extra['ub_functions_outside_subset'] = len(alldropped) + len(skipped)
    check.extra['ub_outside_subset_sample'] = [d[0] + ': ' + d[1] for d in alldropped[:15]]
    if nf < 3000:
        check.error('must-fire: expected >= 3000 functions under the ub obligations, got %d' % nf)


def adjudicate_ub(check, low, ob, fs):
    """Native, under ASan/UBSan and libstdc++ assertions: call the functions of the group whose call tree contains the
    function named by the failed cbmc property, on fixed finite inputs."""
    rec = {'property': 'C20', 'obligation': ob.name, 'function': ob.function, 'verifier_output': ob.detail,
           'cbmc_trace': {k: v for k, v in list((ob.cex or {}).items())[:40]} if isinstance(ob.cex, dict) else None}
    confirmed = False
    m = re.search(r'cbmc FAILURE: (\w+?)\.(array_bounds|pointer|overflow|undefined|division|unwind|assertion|pointer_dereference|pointer_arithmetic|pointer_primitives)', ob.detail)
    culprit = m.group(1) if m else None
    E = cemit.CEmitter(low)
    tried = 0
    for f in fs:
        try:
            names = [g.cname for g in E.closure([f])]
        except Exception:
            continue
        if culprit and culprit not in names:
            continue
        if tried >= 6:
            break
        tried += 1
        try:
            inputs = {}
            k = 0
            vals = [1.5, -2.5, 3.5, 4.5, -5.5, 6.5, 7.5, -8.5, 9.5, 10.5, 11.5, 12.5]
            for i, (pn, pt) in enumerate(f.params):
                if f.kind == 'ctor' and i == 0:
                    continue
                vt = pt[1] if pt[0] == 'ptr' else pt
                n = len(replay.leaf_types(low, vt))
                if vt[0] == 'enum':
                    inputs[pn] = [1]
                elif vt[0] in ('i', 'bool'):
                    inputs[pn] = [1]
                else:
                    from fractions import Fraction
                    inputs[pn] = [Fraction(vals[(k + q) % len(vals)]) for q in range(n)]
                    k += n
            cpp = '#define _GLIBCXX_ASSERTIONS 1\n' + replay.NativeCall(low, f).program(inputs, includes=default_includes(low, f))
            r, err = replay.build_and_run(cpp, os.path.join(check.work, 'replay'), 'r_%s_%d' % (re.sub(r'\W+', '_', ob.name)[:100], tried), sanitize=True)
            if err:
                rec.setdefault('replay_errors', []).append(err[:300])
                continue
            if r.returncode != 0:
                confirmed = True
                rec.update({'cpp': cpp, 'native_output': r.stdout[-500:], 'native_stderr': r.stderr[-1500:], 'inputs': {k2: [str(x) for x in v] for k2, v in inputs.items()},
                            'mismatch': ['%s on finite inputs terminates abnormally under -fsanitize=address,undefined with libstdc++ assertions: %s' % (
                                f.qualname, (r.stderr.strip().split('\n') or [''])[0][:300])]})
                break
        except Exception as e:
            rec.setdefault('replay_errors', []).append('%s: %s' % (type(e).__name__, str(e)[:200]))
    rec['confirmed'] = confirmed
    check.violations.append((ob, write_replay(check, ob, rec), '' if confirmed else 'no-failing-input-found'))


# -------------------------------------------------------------------------------------------------------------- init
def init_obligations(check, Q, T):
    low = Q.low
    n = 0
    bad_total = 0
    per_class = {}
    for canon, r in sorted(low.records.items()):
        if r.targs and r.targs[-1] != T:
            continue
        for f in Q.methods(canon):
            nm = f.node.get('name')
            if f.kind == 'ctor' and len(f.params) == 1:
                continue      # default constructor: leaves the value indeterminate by design (documented)
            if f.kind == 'dtor' or nm.startswith('~'):
                continue
            per_class.setdefault(canon, []).append(f)
    free = Q.free_functions()
    if free:
        per_class['(free functions)'] = free
    n, bad_total = run_init(check, low, per_class, T)
    check.extra['init_functions_checked'] = n
    if n < 2500:
        check.error('must-fire: expected >= 2500 functions under the init obligations, got %d' % n)


def defined_leaves(v):
    """Leaves that must be determinate: the payload of an optional only counts when the optional is engaged on every path."""
    from ..symex import TRUE
    if isinstance(v, dict):
        if set(v.keys()) == {'has', 'val'}:
            return [v['has']] + (defined_leaves(v['val']) if v['has'] == TRUE else [])
        out = []
        for k in v:
            out += defined_leaves(v[k])
        return out
    if isinstance(v, list):
        out = []
        for x in v:
            out += defined_leaves(x)
        return out
    return [v]


def run_init(check, low, per_class, T, cpp_name=None, includes=None):
    n = 0
    bad_total = 0
    for canon, fs in sorted(per_class.items()):
        ob = Ob('C20.init.%s' % canon.replace(' ', ''), 'REAL', canon, None)
        ob.backend = 'phqv symex (indeterminate-value tracking)'
        bad, done, out = [], 0, 0
        for f in fs:
            try:
                S = SymEx(low)
                sc = SymCall(low, f, symex=S)
            except Unsupported as e:
                out += 1
                continue
            except RecursionError:
                out += 1
                continue
            done += 1
            why = []
            if S.reads_undef:
                why.append('reads an indeterminate value (%s)' % brief(S.reads_undef[0]))
            res = []
            if f.kind == 'ctor':
                res = defined_leaves(sc.post[f.params[0][0]])
            elif sc.ret is not None:
                res = defined_leaves(sc.ret)
            for pn, v in sc.post.items():
                if f.kind != 'ctor' or pn != f.params[0][0]:
                    res = res + defined_leaves(v)
            for i, x in enumerate(res):
                if x is UNDEF or (isinstance(x, tuple) and mentions_undef(x)):
                    why.append('leaves component %d of its result indeterminate' % i)
                    break
            if why:
                bad.append((f, why))
            check.under_contract(f)
        n += done
        ob.text = '%d functions of %s executed symbolically from fully initialised arguments (object under construction indeterminate): none reads an indeterminate value, none leaves a result component indeterminate (%d outside the subset)' % (done, canon, out)
        if done == 0:
            continue
        ob.status = 'discharged' if not bad else 'failed'
        if bad:
            bad_total += len(bad)
            ob.detail = '; '.join('%s %s' % (f.qualname, ', '.join(w)) for f, w in bad[:4])
        check.add(ob)
        if bad:
            ctors = [f for f, w in bad if f.kind == 'ctor']
            adjudicate_init(check, low, ob, (ctors or [bad[0][0]])[0], T, cpp_name=cpp_name, includes=includes)
    return n, bad_total


def model_ub_obligations(check, T):
    """CBMC safety obligations on the extracted members of the three constitutive-model classes."""
    from .models_common import Models
    from ..tu import MODELS
    M = Models(check, types=(T,))
    low = M.low
    jobs = []
    for m in MODELS:
        canon = M.canon(m, T)
        if canon in low.records:
            fs = [f for f in M.methods(canon) if not has_loop(f.body)]
            if fs:
                jobs.append((canon, fs))
    n = 0
    for j, (ob, dropped, k) in zip(jobs, pmap(lambda j: ub_group(check, low, j), jobs)):
        n += k
        if ob.status == 'skipped':
            continue
        check.add(ob)
        if ob.status == 'failed':
            adjudicate_ub(check, low, ob, j[1])
    check.extra['model_ub_functions_checked'] = n
    if n < 30:
        check.error('must-fire: expected >= 30 model functions under the ub obligations, got %d' % n)


def model_init_obligations(check, T):
    """The constitutive-model classes (their own translation unit): same indeterminate-value obligations."""
    from .models_common import Models
    from ..tu import MODELS
    M = Models(check, types=(T,))
    low = M.low
    per_class = {}
    for m in MODELS:
        canon = M.canon(m, T)
        if canon not in low.records:
            check.error('C20: model %s not found' % canon)
            continue
        fs = []
        for f in M.methods(canon):
            if f.kind == 'ctor' and len(f.params) == 1:
                continue
            if (f.node.get('name') or '').startswith('~'):
                continue
            fs.append(f)
        per_class[canon] = fs
    n, bad = run_init(check, low, per_class, T, cpp_name=lambda canon: 'PhQ::ConstitutiveModel::' + canon,
                      includes=lambda canon: ['PhQ/ConstitutiveModel/%s.hpp' % canon.split('<')[0]])
    check.extra['model_init_functions_checked'] = n
    if n < 60:
        check.error('must-fire: expected >= 60 model functions under the init obligations, got %d' % n)


def mentions_undef(t):
    stack, seen = [t], set()
    while stack:
        x = stack.pop()
        if not isinstance(x, tuple) or id(x) in seen:
            continue
        seen.add(id(x))
        if x[0] == 'sym' and isinstance(x[1], str) and (x[1].startswith('undef!') or x[1].startswith('indet!')):
            return True
        stack.extend(c for c in x[1:] if isinstance(c, (tuple, list)))
        for c in x[1:]:
            if isinstance(c, list):
                stack.extend(c)
    return False


def brief(t):
    s = repr(t)
    return s if len(s) < 120 else s[:117] + '...'


def adjudicate_init(check, low, ob, f, T, cpp_name=None, includes=None):
    """Native: run the function twice on the same arguments with the destination / stack pre-filled with two different
    byte patterns; a result that depends on the pattern reads or keeps indeterminate memory."""
    rec = {'property': 'C20', 'obligation': ob.name, 'function': f.qualname, 'source': ob.loc, 'verifier_output': ob.detail}
    confirmed = False
    try:
        if f.kind == 'ctor':
            canon = f.record
            cpp_t = cpp_name(canon) if cpp_name else replay.cpp_record(low, canon)
            args = []
            k = 0
            vals = [1.5, -2.5, 3.5, 4.5, -5.5, 6.5, 7.5, -8.5, 9.5, 10.5, 11.5, 12.5]
            decls = ''
            for i, (pn, pt) in enumerate(f.params[1:]):
                vt = pt[1] if pt[0] in ('ptr', 'ref') else pt
                m = len(replay.leaf_types(low, vt))
                ct = replay.cpp_type(low, vt)
                decls += '  %s raw%d[%d] = {%s}; alignas(16) unsigned char buf%d[sizeof(%s)]; std::memcpy(buf%d, raw%d, sizeof raw%d);\n' % (
                    T if vt[0] != 'enum' else 'int', i, max(m, 1), ', '.join(repr(v) for v in vals[k:k + m]) if vt[0] != 'enum' else '1', i, ct, i, i, i)
                args.append('*reinterpret_cast<const %s*>(buf%d)' % (ct, i))
                k += m
            n = len(replay.leaf_types(low, ('rec', canon)))
            cpp = ('#include <%s>\n#include <cstdio>\n#include <cstring>\n#include <new>\nint main() {\n%s'
                   '  alignas(16) unsigned char a[sizeof(%s)], b[sizeof(%s)];\n  std::memset(a, 0x11, sizeof a); std::memset(b, 0xEE, sizeof b);\n'
                   '  new (a) %s(%s); new (b) %s(%s);\n'
                   '  if (std::memcmp(a, b, sizeof a) != 0) { std::printf("MISMATCH: the constructed object depends on the previous contents of its storage\\n"); return 1; }\n  return 0;\n}\n') % (
                       '>\n#include <'.join(includes(canon) if includes else default_includes(low, f)), decls, cpp_t, cpp_t, cpp_t, ', '.join(args), cpp_t, ', '.join(args))
            r, err = replay.build_and_run(cpp, os.path.join(check.work, 'replay'), 'r_' + re.sub(r'\W+', '_', ob.name)[:120])
            if err:
                rec['replay_error'] = err[:800]
            else:
                rec['cpp'], rec['native_output'] = cpp, r.stdout[:500]
                if 'MISMATCH' in r.stdout:
                    confirmed, rec['mismatch'] = True, [r.stdout.strip()]
                    rec['inputs'] = {'storage patterns': ['0x11', '0xEE']}
    except Exception as e:
        rec['replay_error'] = '%s: %s' % (type(e).__name__, e)
    rec['confirmed'] = confirmed
    check.violations.append((ob, write_replay(check, ob, rec), '' if confirmed else 'no-failing-input-found'))
