"""C04 - arithmetic on quantities is exactly arithmetic on their SI values."""
import os, re
from fractions import Fraction
from ..core import Ob, pmap
from .. import astload, cemit, replay
from ..lower import Unsupported, tstr
from ..ieeeob import IeeeJob, HarnessJob, param_leaves, cleaves, isnan_fn, run_jobs, fop, same, old
from .quant_common import Quant, TENSORS, BASES

BINOPS = {'operator+': '+', 'operator-': '-', 'operator*': '*', 'operator/': '/'}
COMPOUND = {'operator+=': '+', 'operator-=': '-', 'operator*=': '*', 'operator/=': '/'}


def shape_rule(op, na, nb, nr):
    """Index pairing for a component-wise operator: list of (result index, a index, b index), or None
    if the operator instance is not component-wise (contractions: C09; definitional relations: C18)."""
    if op in ('+', '-'):
        if na == nb == nr:
            return [(i, i, i) for i in range(nr)]
        return None
    if op == '*':
        if nb == 1 and nr == na:
            return [(i, i, 0) for i in range(nr)]
        if na == 1 and nr == nb:
            return [(i, 0, i) for i in range(nr)]
        return None
    if op == '/':
        if nb == 1 and nr == na:
            return [(i, i, 0) for i in range(nr)]
        return None
    return None


def leaves_of_param(low, f, i):
    pn, pt = f.params[i]
    if pt[0] == 'ptr':
        return cleaves(low, pn, pt[1], arrow=True), replay.leaf_types(low, pt[1])
    return cleaves(low, pn, pt), replay.leaf_types(low, pt)


def finite_req(T, leaves):
    big = {'float': '0x1.fffffep+127f', 'double': '0x1.fffffffffffffp+1023'}[T]
    return ['%s >= -%s && %s <= %s' % (x, big, x, big) for x in leaves]


def all_float(lts, T):
    return all(lt == ('f', T) for lt in lts)


def make_pred(f, op, rule, T, compound=False, ctor=False):
    an, bn = f.params[0][0], f.params[1][0]

    def pred(w, out, run):
        a, b = w.get(an), w[bn]
        got = out.get('POST ' + an) if compound else out.get('RET')
        if got is None or a is None and not ctor:
            return []
        bad = []
        for (ri, ai, bi) in rule:
            want = fop(T, op, a[ai], b[bi])
            if ri < len(got) and not same(want, got[ri]):
                bad.append('component %d: %r %s %r = %r, the library returns %r' % (ri, float(a[ai]), op, float(b[bi]), want, float(got[ri])))
        return bad
    return pred


def run(check):
    tier = check.tier
    types = ['double'] if tier == 'quick' else ['double', 'float']
    check.checker_cmd = 'clang++ -ast-dump=json | phqv lower | goto-cc | goto-instrument --dfcc --enforce-contract <operator> | cbmc --cvc5'
    check.assume('IEEE mode: binary32/binary64 round-to-nearest-even as modelled by CBMC; NaN results are unconstrained (r == spec || isnan(spec))')
    check.notes.append('long double instantiations are the same template text; x87 arithmetic has no bit-precise obligation (CBMC long double is binary128)')
    check.notes.append('operator instances that are not component-wise (dot/matrix products: C09; relations with dimensionless constants such as thermal strain: C18) are listed under not_componentwise and are not C04 obligations')
    jobs = []
    skipped_rule = []
    n_ops = 0
    for T in types:
        Q = Quant(check, types=(T,), other_types=(), conv=False, hash_=False)
        low = Q.low
        tag = T.replace(' ', '_')
        classes = [c for c in Q.names if c not in BASES]
        ctor_index = {}
        for cls in classes:
            canon = Q.canon(cls, T)
            if canon not in low.records:
                continue
            for f in Q.methods(canon):
                if f.kind == 'ctor' and len(f.params) == 3:
                    key = (canon, f.params[1][1], f.params[2][1])
                    ctor_index[key] = f
        seen_names = {}
        for cls in classes:
            canon = Q.canon(cls, T)
            if canon not in low.records:
                check.error('C04: %s not instantiated' % canon)
                continue
            for f in Q.methods(canon):
                nm = f.node.get('name')
                if f.kind != 'method' or len(f.params) != 2:
                    continue
                if nm in BINOPS:
                    op = BINOPS[nm]
                    la, lta = leaves_of_param(low, f, 0)
                    lb, ltb = leaves_of_param(low, f, 1)
                    if f.ret == ('void',):
                        continue
                    try:
                        ltr = replay.leaf_types(low, f.ret)
                    except Unsupported:
                        continue
                    if not (all_float(lta, T) and all_float(ltb, T) and all_float(ltr, T)):
                        continue
                    rule = shape_rule(op, len(la), len(lb), len(ltr))
                    bt = tstr(f.params[1][1][1] if f.params[1][1][0] == 'ptr' else f.params[1][1])
                    base = 'C04.op.%s.%s.%s' % (cls, {'+': 'plus', '-': 'minus', '*': 'times', '/': 'over'}[op], re.sub(r'<.*', '', bt) or 'number')
                    if rule is None:
                        skipped_rule.append('%s %s %s -> %s' % (canon, op, bt, tstr(f.ret)))
                        continue
                    n_ops += 1
                    lr = cleaves(low, '__CPROVER_return_value', f.ret)
                    isn = isnan_fn(T)
                    ens = ['%s == %s %s %s || %s(%s %s %s)' % (lr[ri], la[ai], op, lb[bi], isn, la[ai], op, lb[bi]) for ri, ai, bi in rule]
                    j = IeeeJob(check, uniq(seen_names, base + '.' + tag), low, f, ensures=ens, requires=finite_req(T, la + lb), backend=['cvc5', 'sat'], timeout=90,
                                predicate=make_pred(f, op, rule, T))
                    jobs.append(j)
                    check.under_contract(f)
                    # constructor twin: C(A, B) must return the identical value
                    rt = f.ret
                    if rt[0] == 'rec':
                        for key in ((rt[1], f.params[0][1], f.params[1][1]), (rt[1], f.params[1][1], f.params[0][1])):
                            g = ctor_index.get(key)
                            if g is None:
                                continue
                            swapped = key[1] != f.params[0][1] or (key[1] == key[2] and False)
                            ga, _ = leaves_of_param(low, g, 1)
                            gb, _ = leaves_of_param(low, g, 2)
                            if key[1] == f.params[0][1] and key[2] == f.params[1][1]:
                                xa, xb = ga, gb
                            else:
                                xa, xb = gb, ga
                            gs = cleaves(low, 'self', rt, arrow=True)
                            ens2 = ['%s == %s %s %s || %s(%s %s %s)' % (gs[ri], xa[ai], op, xb[bi], isn, xa[ai], op, xb[bi]) for ri, ai, bi in rule]

                            def predc(w, out, run, g=g, op=op, rule=rule, T=T, swapped=(xa is gb)):
                                a, b = w[g.params[1][0]], w[g.params[2][0]]
                                if swapped:
                                    a, b = b, a
                                got = out.get('RET')
                                if got is None:
                                    return []
                                bad = []
                                for (ri, ai, bi) in rule:
                                    want = fop(T, op, a[ai], b[bi])
                                    if not same(want, got[ri]):
                                        bad.append('component %d: constructor gives %r, operator twin computes %r' % (ri, float(got[ri]), want))
                                return bad
                            jobs.append(IeeeJob(check, uniq(seen_names, base.replace('C04.op.', 'C04.twin.') + '.' + tag), low, g, ensures=ens2, requires=finite_req(T, xa + xb),
                                                assigns='__CPROVER_assigns(*self)', backend=['cvc5', 'sat'], timeout=90, predicate=predc))
                            check.under_contract(g)
                            break
                elif nm in COMPOUND:
                    op = COMPOUND[nm]
                    la, lta = leaves_of_param(low, f, 0)
                    lb, ltb = leaves_of_param(low, f, 1)
                    if not (all_float(lta, T) and all_float(ltb, T)):
                        continue
                    rule = shape_rule(op, len(la), len(lb), len(la))
                    bt = tstr(f.params[1][1][1] if f.params[1][1][0] == 'ptr' else f.params[1][1])
                    base = 'C04.opassign.%s.%s.%s' % (cls, {'+': 'plus', '-': 'minus', '*': 'times', '/': 'over'}[op], re.sub(r'<.*', '', bt) or 'number')
                    if rule is None:
                        skipped_rule.append('%s %s= %s' % (canon, op, bt))
                        continue
                    n_ops += 1
                    isn = isnan_fn(T)
                    bexp = [(old(x) if f.params[1][1][0] != 'ptr' else x) for x in lb]
                    ens = ['%s == %s %s %s || %s(%s)' % (la[ri], old(la[ai]), op, bexp[bi], isn, la[ri]) for ri, ai, bi in rule]
                    j = IeeeJob(check, uniq(seen_names, base + '.' + tag), low, f, ensures=ens, requires=finite_req(T, la + lb), assigns='__CPROVER_assigns(*self)',
                                backend=['cvc5', 'sat'], timeout=90, predicate=make_pred(f, op, rule, T, compound=True))
                    jobs.append(j)
                    check.under_contract(f)
        # free operators: number * quantity, and the component-wise kernels of the tensor classes
        for f in Q.free_functions(names=set(BINOPS)):
            if len(f.params) != 2 or f.ret == ('void',):
                continue
            op = BINOPS[f.node['name']]
            try:
                la, lta = leaves_of_param(low, f, 0)
                lb, ltb = leaves_of_param(low, f, 1)
                ltr = replay.leaf_types(low, f.ret)
            except Unsupported:
                continue
            if not (all_float(lta, T) and all_float(ltb, T) and all_float(ltr, T)):
                continue
            rule = shape_rule(op, len(la), len(lb), len(ltr))
            at = tstr(f.params[0][1][1] if f.params[0][1][0] == 'ptr' else f.params[0][1])
            bt = tstr(f.params[1][1][1] if f.params[1][1][0] == 'ptr' else f.params[1][1])
            base = 'C04.free.%s.%s.%s' % (re.sub(r'<.*', '', at) or 'number', {'+': 'plus', '-': 'minus', '*': 'times', '/': 'over'}[op], re.sub(r'<.*', '', bt) or 'number')
            if rule is None:
                skipped_rule.append('%s %s %s -> %s' % (at, op, bt, tstr(f.ret)))
                continue
            n_ops += 1
            lr = cleaves(low, '__CPROVER_return_value', f.ret)
            isn = isnan_fn(T)
            ens = ['%s == %s %s %s || %s(%s %s %s)' % (lr[ri], la[ai], op, lb[bi], isn, la[ai], op, lb[bi]) for ri, ai, bi in rule]
            jobs.append(IeeeJob(check, uniq(seen_names, base + '.' + tag), low, f, ensures=ens, requires=finite_req(T, la + lb), backend=['cvc5', 'sat'], timeout=90,
                                predicate=make_pred(f, op, rule, T)))
            check.under_contract(f)
        for nm, why in Q.skipped:
            if 'string' in why or 'ostream' in why:
                continue
            check.outside.append('%s: %s' % (nm, why))
    check.extra['operator_instances'] = n_ops
    check.extra['not_componentwise'] = sorted(set(skipped_rule))[:200]
    check.extra['not_componentwise_count'] = len(set(skipped_rule))
    check.log('%d obligations (%d operator instances; %d instances not component-wise)' % (len(jobs), n_ops, len(set(skipped_rule))))
    if n_ops < 800:
        check.error('must-fire: expected >= 800 operator instances, found %d' % n_ops)
    run_jobs(check, jobs)
    check.assume('histories: any interleaving of compound assignments equals the chain of pure operators by induction over the history (each step is one discharged op= contract with frame)')
    check.notes.append('std::abs/sqrt/... overloads for dimensionless scalars live in namespace std and are not yet under contract')


def uniq(seen, name):
    seen[name] = seen.get(name, 0) + 1
    return name if seen[name] == 1 else '%s#%d' % (name, seen[name])
