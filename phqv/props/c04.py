"""C04 - arithmetic on quantities is exactly arithmetic on their SI values."""
import os, re
from fractions import Fraction
from ..core import Ob, pmap
from .. import astload, cemit, replay
from ..lower import Unsupported, tstr
from ..ieeeob import IeeeJob, HarnessJob, param_leaves, cleaves, isnan_fn, run_jobs, fop, same, old
from .quant_common import Quant, TENSORS, BASES

BINOPS = {'operator+': '+', 'operator-': '-', 'operator*': '*', 'operator/': '/'}
COMPOUND = {'operator+=': '+', 'operator-=': '-', 'operator*=': '*', 'operator/=': '/'}


def shape_rule(op, na, nb, nr):
    """Index pairing for a component-wise operator: list of (result index, a index, b index), or None
    if the operator instance is not component-wise (contractions: C09; definitional relations: C18)."""
    if op in ('+', '-'):
        if na == nb == nr:
            return [(i, i, i) for i in range(nr)]
        return None
    if op == '*':
        if nb == 1 and nr == na:
            return [(i, i, 0) for i in range(nr)]
        if na == 1 and nr == nb:
            return [(i, 0, i) for i in range(nr)]
        return None
    if op == '/':
        if nb == 1 and nr == na:
            return [(i, i, 0) for i in range(nr)]
        return None
    return None


def leaves_of_param(low, f, i):
    pn, pt = f.params[i]
    if pt[0] == 'ptr':
        return cleaves(low, pn, pt[1], arrow=True), replay.leaf_types(low, pt[1])
    return cleaves(low, pn, pt), replay.leaf_types(low, pt)


def finite_req(T, leaves):
    big = {'float': '0x1.fffffep+127f', 'double': '0x1.fffffffffffffp+1023'}[T]
    return ['%s >= -%s && %s <= %s' % (x, big, x, big) for x in leaves]


def all_float(lts, T):
    return all(lt == ('f', T) for lt in lts)


def make_pred(f, op, rule, T, compound=False, ctor=False):
    an, bn = f.params[0][0], f.params[1][0]

    def pred(w, out, run):
        a, b = w.get(an), w[bn]
        got = out.get('POST ' + an) if compound else out.get('RET')
        if got is None or a is None and not ctor:
            return []
        bad = []
        for (ri, ai, bi) in rule:
            want = fop(T, op, a[ai], b[bi])
            if ri < len(got) and not same(want, got[ri]):
                bad.append('component %d: %r %s %r = %r, the library returns %r' % (ri, float(a[ai]), op, float(b[bi]), want, float(got[ri])))
        return bad
    return pred


def run(check):
    tier = check.tier
    types = ['double'] if tier == 'quick' else ['double', 'float']
    check.checker_cmd = 'clang++ -ast-dump=json | phqv lower | goto-cc | goto-instrument --dfcc --enforce-contract <operator> | cbmc --cvc5'
    check.assume('IEEE mode: binary32/binary64 round-to-nearest-even as modelled by CBMC; NaN results are unconstrained (r == spec || isnan(spec))')
    check.notes.append('long double: x87 arithmetic has no bit-precise obligation (CBMC long double is binary128); instead every operator instance of the long double instantiation is proved to compute the component-wise real operation on the stored values with no value narrowed below long double (C04.ld.*)')
    check.notes.append('operator instances that are not component-wise (dot/matrix products: C09; relations with dimensionless constants such as thermal strain: C18) are listed under not_componentwise and are not C04 obligations')
    jobs = []
    skipped_rule = []
    n_ops = 0
    stdmath_obligations(check)
    for T in types:
        Q = Quant(check, types=(T,), other_types=(), conv=False, hash_=False)
        low = Q.low
        tag = T.replace(' ', '_')
        classes = [c for c in Q.names if c not in BASES]
        ctor_index = {}
        for cls in classes:
            canon = Q.canon(cls, T)
            if canon not in low.records:
                continue
            for f in Q.methods(canon):
                if f.kind == 'ctor' and len(f.params) == 3:
                    key = (canon, f.params[1][1], f.params[2][1])
                    ctor_index[key] = f
        seen_names = {}
        for cls in classes:
            canon = Q.canon(cls, T)
            if canon not in low.records:
                check.error('C04: %s not instantiated' % canon)
                continue
            for f in Q.methods(canon):
                nm = f.node.get('name')
                if f.kind != 'method' or len(f.params) != 2:
                    continue
                if nm in BINOPS:
                    op = BINOPS[nm]
                    la, lta = leaves_of_param(low, f, 0)
                    lb, ltb = leaves_of_param(low, f, 1)
                    if f.ret == ('void',):
                        continue
                    try:
                        ltr = replay.leaf_types(low, f.ret)
                    except Unsupported:
                        continue
                    if not (all_float(lta, T) and all_float(ltb, T) and all_float(ltr, T)):
                        continue
                    rule = shape_rule(op, len(la), len(lb), len(ltr))
                    bt = tstr(f.params[1][1][1] if f.params[1][1][0] == 'ptr' else f.params[1][1])
                    base = 'C04.op.%s.%s.%s' % (cls, {'+': 'plus', '-': 'minus', '*': 'times', '/': 'over'}[op], re.sub(r'<.*', '', bt) or 'number')
                    if rule is None:
                        skipped_rule.append('%s %s %s -> %s' % (canon, op, bt, tstr(f.ret)))
                        continue
                    n_ops += 1
                    lr = cleaves(low, '__CPROVER_return_value', f.ret)
                    isn = isnan_fn(T)
                    ens = ['%s == %s %s %s || %s(%s %s %s)' % (lr[ri], la[ai], op, lb[bi], isn, la[ai], op, lb[bi]) for ri, ai, bi in rule]
                    j = IeeeJob(check, uniq(seen_names, base + '.' + tag), low, f, ensures=ens, requires=finite_req(T, la + lb), backend=['cvc5', 'sat'], timeout=90,
                                predicate=make_pred(f, op, rule, T))
                    jobs.append(j)
                    check.under_contract(f)
                    # constructor twin: C(A, B) must return the identical value
                    rt = f.ret
                    if rt[0] == 'rec':
                        for key in ((rt[1], f.params[0][1], f.params[1][1]), (rt[1], f.params[1][1], f.params[0][1])):
                            g = ctor_index.get(key)
                            if g is None:
                                continue
                            swapped = key[1] != f.params[0][1] or (key[1] == key[2] and False)
                            ga, _ = leaves_of_param(low, g, 1)
                            gb, _ = leaves_of_param(low, g, 2)
                            if key[1] == f.params[0][1] and key[2] == f.params[1][1]:
                                xa, xb = ga, gb
                            else:
                                xa, xb = gb, ga
                            gs = cleaves(low, 'self', rt, arrow=True)
                            ens2 = ['%s == %s %s %s || %s(%s %s %s)' % (gs[ri], xa[ai], op, xb[bi], isn, xa[ai], op, xb[bi]) for ri, ai, bi in rule]

                            def predc(w, out, run, g=g, op=op, rule=rule, T=T, swapped=(xa is gb)):
                                a, b = w[g.params[1][0]], w[g.params[2][0]]
                                if swapped:
                                    a, b = b, a
                                got = out.get('RET')
                                if got is None:
                                    return []
                                bad = []
                                for (ri, ai, bi) in rule:
                                    want = fop(T, op, a[ai], b[bi])
                                    if not same(want, got[ri]):
                                        bad.append('component %d: constructor gives %r, operator twin computes %r' % (ri, float(got[ri]), want))
                                return bad
                            jobs.append(IeeeJob(check, uniq(seen_names, base.replace('C04.op.', 'C04.twin.') + '.' + tag), low, g, ensures=ens2, requires=finite_req(T, xa + xb),
                                                assigns='__CPROVER_assigns(*self)', backend=['cvc5', 'sat'], timeout=90, predicate=predc))
                            check.under_contract(g)
                            break
                elif nm in COMPOUND:
                    op = COMPOUND[nm]
                    la, lta = leaves_of_param(low, f, 0)
                    lb, ltb = leaves_of_param(low, f, 1)
                    if not (all_float(lta, T) and all_float(ltb, T)):
                        continue
                    rule = shape_rule(op, len(la), len(lb), len(la))
                    bt = tstr(f.params[1][1][1] if f.params[1][1][0] == 'ptr' else f.params[1][1])
                    base = 'C04.opassign.%s.%s.%s' % (cls, {'+': 'plus', '-': 'minus', '*': 'times', '/': 'over'}[op], re.sub(r'<.*', '', bt) or 'number')
                    if rule is None:
                        skipped_rule.append('%s %s= %s' % (canon, op, bt))
                        continue
                    n_ops += 1
                    isn = isnan_fn(T)
                    bexp = [(old(x) if f.params[1][1][0] != 'ptr' else x) for x in lb]
                    ens = ['%s == %s %s %s || %s(%s)' % (la[ri], old(la[ai]), op, bexp[bi], isn, la[ri]) for ri, ai, bi in rule]
                    j = IeeeJob(check, uniq(seen_names, base + '.' + tag), low, f, ensures=ens, requires=finite_req(T, la + lb), assigns='__CPROVER_assigns(*self)',
                                backend=['cvc5', 'sat'], timeout=90, predicate=make_pred(f, op, rule, T, compound=True))
                    jobs.append(j)
                    check.under_contract(f)
        # free operators: number * quantity, and the component-wise kernels of the tensor classes
        for f in Q.free_functions(names=set(BINOPS)):
            if len(f.params) != 2 or f.ret == ('void',):
                continue
            op = BINOPS[f.node['name']]
            try:
                la, lta = leaves_of_param(low, f, 0)
                lb, ltb = leaves_of_param(low, f, 1)
                ltr = replay.leaf_types(low, f.ret)
            except Unsupported:
                continue
            if not (all_float(lta, T) and all_float(ltb, T) and all_float(ltr, T)):
                continue
            rule = shape_rule(op, len(la), len(lb), len(ltr))
            at = tstr(f.params[0][1][1] if f.params[0][1][0] == 'ptr' else f.params[0][1])
            bt = tstr(f.params[1][1][1] if f.params[1][1][0] == 'ptr' else f.params[1][1])
            base = 'C04.free.%s.%s.%s' % (re.sub(r'<.*', '', at) or 'number', {'+': 'plus', '-': 'minus', '*': 'times', '/': 'over'}[op], re.sub(r'<.*', '', bt) or 'number')
            if rule is None:
                skipped_rule.append('%s %s %s -> %s' % (at, op, bt, tstr(f.ret)))
                continue
            n_ops += 1
            lr = cleaves(low, '__CPROVER_return_value', f.ret)
            isn = isnan_fn(T)
            ens = ['%s == %s %s %s || %s(%s %s %s)' % (lr[ri], la[ai], op, lb[bi], isn, la[ai], op, lb[bi]) for ri, ai, bi in rule]
            jobs.append(IeeeJob(check, uniq(seen_names, base + '.' + tag), low, f, ensures=ens, requires=finite_req(T, la + lb), backend=['cvc5', 'sat'], timeout=90,
                                predicate=make_pred(f, op, rule, T)))
            check.under_contract(f)
        for nm, why in Q.skipped:
            if 'string' in why or 'ostream' in why:
                continue
            check.outside.append('%s: %s' % (nm, why))
    check.extra['operator_instances'] = n_ops
    check.extra['not_componentwise'] = sorted(set(skipped_rule))[:200]
    check.extra['not_componentwise_count'] = len(set(skipped_rule))
    check.log('%d obligations (%d operator instances; %d instances not component-wise)' % (len(jobs), n_ops, len(set(skipped_rule))))
    if n_ops < 800:
        check.error('must-fire: expected >= 800 operator instances, found %d' % n_ops)
    run_jobs(check, jobs)
    check.assume('histories: any interleaving of compound assignments equals the chain of pure operators by induction over the history (each step is one discharged op= contract with frame)')
    long_double_pass(check)


def uniq(seen, name):
    seen[name] = seen.get(name, 0) + 1
    return name if seen[name] == 1 else '%s#%d' % (name, seen[name])


STD_MATH = ['abs', 'cbrt', 'exp', 'log', 'log2', 'log10', 'pow', 'sqrt']


def stdmath_obligations(check):
    """std::abs/cbrt/exp/log/log2/log10/pow/sqrt overloaded for DimensionlessScalar<T> return exactly that function of
    the stored number: symbolic execution of the instantiated overloads (all three numeric types; they live in namespace
    std, so each is dumped with its own -ast-dump-filter=std::<name> and merged by node id)."""
    from .. import astload, lower, replay
    from ..symex import SymEx, mk, num, cmp, land, TRUE
    from ..realob import SymCall, leaves
    from ..ieeeob import write_replay
    types = ['double', 'float', 'long double']
    tu = '#include <PhQ/DimensionlessScalar.hpp>\nnamespace PhQ { namespace phqv_use {\n'
    for i, t in enumerate(types):
        tu += ('void use_math%d(const DimensionlessScalar<%s>& a, int n, %s e) { (void)std::abs(a); (void)std::cbrt(a); (void)std::exp(a); (void)std::log(a); '
               '(void)std::log2(a); (void)std::log10(a); (void)std::pow(a, n); (void)std::pow(a, e); (void)std::sqrt(a); }\n') % (i, t, t)
        # exponents of the other types: the overload takes the exponent in its own type (an exponent wider than the quantity's
        # numeric type, or an integer with more digits than its significand, must reach pow unconverted)
        tu += ('void use_pow%d(const DimensionlessScalar<%s>& a, long l, %s e1, %s e2) { (void)std::pow(a, l); (void)std::pow(a, e1); (void)std::pow(a, e2); }\n'
               % ((i, t) + tuple(u for u in types if u != t)))
    tu += '} }\n'
    wd = os.path.join(check.work, 'ast')
    a = astload.Ast()
    a.load(astload.dump(tu, wd, 'stdmath'))
    # one dump per filter; the filters all have the length of 'PhQ': clang's node ids (heap addresses, ASLR off) are only
    # identical across invocations whose argument strings have the same allocation sizes
    for flt in ('abs', 'cbr', 'exp', 'log', 'pow', 'sqr'):
        a.load(astload.dump(tu, wd, 'stdmath', filt=flt))
    low = lower.Lowerer(a)
    seen = 0
    for o in a.walk():
        if not (o.get('kind') == 'FunctionDecl' and o.get('name') in STD_MATH and low.has_body(o) and a.byid.get(o['id']) is o
                and any(x.get('kind') == 'TemplateArgument' for x in o.get('inner', ()))):
            continue
        ps = [c for c in o.get('inner', ()) if c.get('kind') == 'ParmVarDecl']
        if not ps or 'DimensionlessScalar' not in ps[0]['type']['qualType']:
            continue
        nm = o['name']
        sig = re.sub(r'\bconst\b|PhQ::|&|noexcept', '', o['type']['qualType']).replace('  ', ' ').strip()
        ob = Ob('C04.stdmath.%s.%s' % (nm, re.sub(r'\W+', '_', sig).strip('_')), 'REAL', 'std::%s(%s)' % (nm, ps[0]['type']['qualType']),
                'include/PhQ/DimensionlessScalar.hpp:%s' % ((o.get('loc') or {}).get('line') or (o.get('range', {}).get('begin', {}) or {}).get('line') or ''))
        ob.backend = 'phqv symex (term identity)'
        seen += 1
        try:
            f = low.lower_func(o)
            S = SymEx(low)
            sc = SymCall(low, f, symex=S)
            x = leaves(sc.pre[f.params[0][0]])[0]
            if nm == 'abs':
                want = ('ite', ('<=', num(0), x), x, ('neg', x))
                ok = sc.ret == want
            elif nm == 'sqrt':
                # the result is the square root symbol whose contract (r >= 0, r*r == x) was recorded for argument x
                want = 'sqrt(x)'
                ok = isinstance(sc.ret, tuple) and sc.ret[0] == 'sym' and any(c == land(cmp('>=', sc.ret, num(0)), cmp('==', mk('*', sc.ret, sc.ret), x)) for c in S.assumes)
            elif nm == 'pow':
                e = sc.pre[f.params[1][0]]
                want = ('app', 'pow', (x, e))
                ok = sc.ret == want
            else:
                want = ('app', nm, (x,))
                ok = sc.ret == want
            ob.text = 'std::%s(q%s) == %s(q.Value()%s) as a term over the stored number, for all values' % (nm, ', e' if nm == 'pow' else '', nm, ', e' if nm == 'pow' else '')
            if ok and nm == 'pow':
                # the arguments reach pow as they are: neither the stored number nor the exponent is converted to a type that
                # cannot hold every value of its own type (the conversion of pow's result to the return type is the rounding
                # the property allows and is not an argument)
                arg_leaves = {x, e}
                bits = {'float': 24, 'double': 53, 'long double': 64}
                ibits = lambda w: (w - 1) if isinstance(w, int) else 63   # integer types are lowered to their width in bits
                lost = [(to, frm) for (to, frm), v in zip(S.narrowings, S.narrowed_terms) if v in arg_leaves]
                lost += [(to, frm) for to, frm, v in S.int_to_float if v in arg_leaves and ibits(frm) > bits.get(to, 24)]
                if lost:
                    ok = False
                    sc.ret = 'pow of an argument converted from %s to %s, which cannot hold every value of that type' % ('a %d-bit integer' % lost[0][1] if isinstance(lost[0][1], int) else lost[0][1], lost[0][0])
            if ok and S.narrow_bad:
                ok = False
                sc.ret = 'a %s value narrowed to %s on its way into a %s result' % (S.narrow_bad[0][1], S.narrow_bad[0][0], S.narrow_bad[0][3])
            ob.status = 'discharged' if ok else 'failed'
            if not ok:
                ob.detail = 'returns %r' % (sc.ret,)
            check.under_contract(f)
        except Unsupported as e:
            ob.status, ob.detail = 'error', 'Unsupported: %s' % e
        check.add(ob)
        if ob.status == 'failed':
            T = ps[0]['type']['qualType'].split('<')[1].split('>')[0]
            suf = {'float': 'f', 'double': '', 'long double': 'l'}[T]
            arg2 = ', e' if nm == 'pow' else ''
            e_t = ps[1]['type']['qualType'].replace('const ', '') if nm == 'pow' else T
            # an exponent that the quantity's numeric type cannot hold when its own type can
            e_v = '(%s)0.1L' % e_t if e_t in ('float', 'double', 'long double') else ('16777217' if T == 'float' or e_t in ('int', 'short') else '9007199254740993')
            cpp = ('#include <PhQ/DimensionlessScalar.hpp>\n#include <cmath>\n#include <cstdio>\nint main() { int bad = 0; const %s xs[] = {0.25, 2.0, 3.5, 10.0, 100.0, 1.00000011920928955078125, 1.0000000000000002220446049250313}; const %s e = %s;\n'
                   '  for (%s x : xs) { PhQ::DimensionlessScalar<%s> q(x); const %s got = std::%s(q%s); const %s want = std::%s(x%s);\n'
                   '    if (!(got == want)) { std::printf("MISMATCH std::%s(%%.17Lg) = %%.17Lg, the function of the stored number is %%.17Lg\\n", (long double)x, (long double)got, (long double)want); bad++; } }\n'
                   '  return bad ? 1 : 0; }\n') % (T, e_t, e_v, T, T, T, nm, arg2, T, nm, arg2, nm)
            rec = {'property': 'C04', 'obligation': ob.name, 'function': ob.function, 'source': ob.loc, 'verifier_output': ob.detail, 'cpp': cpp, 'confirmed': False}
            r, err = replay.build_and_run(cpp, os.path.join(check.work, 'replay'), 'r_' + re.sub(r'\W+', '_', ob.name))
            if err:
                rec['replay_error'] = err[:500]
            elif 'MISMATCH' in r.stdout:
                rec['confirmed'], rec['mismatch'], rec['native_output'] = True, r.stdout.strip().split('\n')[:5], r.stdout[:800]
            check.violations.append((ob, write_replay(check, ob, rec), '' if rec['confirmed'] else 'no-failing-input-found'))
    check.extra['std_math_overloads_seen'] = seen
    if seen != 36:
        check.error('must-fire: expected 36 std:: math overload instantiations (8 functions, pow with five exponent types, 3 numeric types), found %d' % seen)


def long_double_pass(check):
    """long double instantiation: each component-wise operator equals the real operation on the stored components
    (symbolic execution + z3) and no value is narrowed below long double on the way (precision audit)."""
    from ..symex import SymEx, mk, num, cmp
    from ..realob import SymCall, RealTask, leaves, conj
    from ..ieeeob import write_replay
    T = 'long double'
    Q = Quant(check, types=(T,), other_types=(), conv=False, hash_=False)
    low = Q.low
    tasks = []
    seen = {}

    def task(f, op, compound, base):
        S = SymEx(low)
        sc = SymCall(low, f, symex=S)
        a = leaves(sc.pre[f.params[0][0]])
        b = leaves(sc.pre[f.params[1][0]])
        if compound:
            r = leaves(sc.post[f.params[0][0]])
        else:
            if sc.ret is None:
                return
            r = leaves(sc.ret)
        rule = shape_rule(op, len(a), len(b), len(r))
        if rule is None:
            return
        goal = conj([cmp('==', r[ri], mk(op, a[ai], b[bi])) for ri, ai, bi in rule])
        t = RealTask(check, uniq(seen, base), S, goal, assumes=[c for c, _ in S.domain], function=f.qualname, loc=Q.loc(f), timeout=60)
        t.ob.text = 'long double instantiation: result component i == (a_i %s b_i) over the reals, and no value is narrowed below long double' % op
        t.meta = (f, op, rule, compound)
        tasks.append(t)
        check.under_contract(f)
    OPN = {'+': 'plus', '-': 'minus', '*': 'times', '/': 'over'}
    for cls in [c for c in Q.names if c not in BASES]:
        canon = Q.canon(cls, T)
        if canon not in low.records:
            continue
        for f in Q.methods(canon):
            nm = f.node.get('name')
            if f.kind != 'method' or len(f.params) != 2 or nm not in BINOPS and nm not in COMPOUND:
                continue
            try:
                lts = replay.leaf_types(low, f.params[0][1][1]) + replay.leaf_types(low, f.params[1][1][1] if f.params[1][1][0] == 'ptr' else f.params[1][1])
                if not all_float(lts, T):
                    continue
                bt = tstr(f.params[1][1][1] if f.params[1][1][0] == 'ptr' else f.params[1][1])
                op = BINOPS.get(nm) or COMPOUND[nm]
                task(f, op, nm in COMPOUND, 'C04.ld.%s.%s.%s.%s' % ('opassign' if nm in COMPOUND else 'op', cls, OPN[op], re.sub(r'<.*', '', bt) or 'number'))
            except Unsupported:
                continue
    for f in Q.free_functions(names=set(BINOPS)):
        if len(f.params) != 2 or f.ret == ('void',):
            continue
        try:
            pa = f.params[0][1][1] if f.params[0][1][0] == 'ptr' else f.params[0][1]
            pb = f.params[1][1][1] if f.params[1][1][0] == 'ptr' else f.params[1][1]
            if not all_float(replay.leaf_types(low, pa) + replay.leaf_types(low, pb) + replay.leaf_types(low, f.ret), T):
                continue
            op = BINOPS[f.node['name']]
            task(f, op, False, 'C04.ld.free.%s.%s.%s' % (re.sub(r'<.*', '', tstr(pa)) or 'number', OPN[op], re.sub(r'<.*', '', tstr(pb)) or 'number'))
        except Unsupported:
            continue
    check.extra['long_double_operator_instances'] = len(tasks)
    if len(tasks) < 800:
        check.error('must-fire: expected >= 800 long double operator instances, found %d' % len(tasks))
    for t, ob in zip(tasks, pmap(lambda t: t.run(), tasks)):
        check.add(ob)
        if ob.status == 'failed':
            f, op, rule, compound = t.meta
            rec = {'property': 'C04', 'obligation': ob.name, 'function': ob.function, 'source': ob.loc, 'verifier_output': ob.detail, 'confirmed': False}
            try:
                vals = [Fraction(1, 3), Fraction(-7, 3), Fraction(10, 7), Fraction(1, 10), Fraction(22, 7), Fraction(-5, 9), Fraction(13, 11), Fraction(3, 17), Fraction(9, 19)]
                inputs, k = {}, 0
                for pn, pt in f.params:
                    n = len(replay.leaf_types(low, pt[1] if pt[0] == 'ptr' else pt))
                    from ..cemit import round_to
                    inputs[pn] = [round_to(vals[(k + i) % len(vals)], T) for i in range(n)]
                    k += n
                from ..ieeeob import default_includes
                cpp = replay.NativeCall(low, f).program(inputs, includes=default_includes(low, f))
                r, err = replay.build_and_run(cpp, os.path.join(check.work, 'replay'), 'r_' + re.sub(r'\W+', '_', ob.name)[:150])
                if err:
                    rec['replay_error'] = err[:500]
                else:
                    out = replay.parse_out(r.stdout)
                    got = out.get('POST ' + f.params[0][0]) if compound else out.get('RET')
                    a, b = inputs[f.params[0][0]], inputs[f.params[1][0]]
                    bad = []
                    for ri, ai, bi in rule:
                        exact = {'+': a[ai] + b[bi], '-': a[ai] - b[bi], '*': a[ai] * b[bi], '/': a[ai] / b[bi]}[op]
                        want = round_to(exact, T)
                        if got is not None and Fraction(got[ri]) != want:
                            bad.append('component %d: %s %s %s correctly rounded to long double is %s, the library returns %s' % (ri, a[ai], op, b[bi], want, got[ri]))
                    if bad:
                        rec.update({'confirmed': True, 'mismatch': bad[:4], 'cpp': cpp, 'native_output': r.stdout, 'inputs': {k2: [str(x) for x in v] for k2, v in inputs.items()}})
            except Exception as e:
                rec['replay_error'] = '%s: %s' % (type(e).__name__, e)
            check.violations.append((ob, write_replay(check, ob, rec), '' if rec['confirmed'] else 'no-failing-input-found'))
