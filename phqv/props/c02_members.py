"""C02, member part: constructors taking a unit, value-in-unit accessors and compile-time creation of every quantity
class forward each stored component exactly once through the conversion entry points, in component order.

Modular: the free entry points Convert / ConvertInPlace / ConvertStatically are replaced by their contract
(component-wise application of one uninterpreted function convert(x, from, to); C02.copy.* / C02.inplace.* /
C02.static.* prove that contract for the entry points themselves), and the bodies of the members are executed
symbolically (all inputs, all units)."""
import os, re
from ..core import Ob, pmap
from .. import replay
from ..lower import Unsupported
from ..symex import SymEx, State, Ptr, mk, num, is_num
from ..realob import SymCall, leaves
from ..ieeeob import write_replay
from .quant_common import Quant, BASES, TENSORS

SHAPE_ARGS = {1: '1.5', 2: '1.5, -2.5', 3: '1.5, -2.5, 3.5', 6: '1.5, -2.5, 3.5, 4.5, -5.5, 6.5', 9: '1.5, -2.5, 3.5, 4.5, -5.5, 6.5, 7.5, -8.5, 9.5'}


def static_args(low, node):
    """(unit type, from, to) of an instantiation ConvertStatically<U, From, To>."""
    a = low.ast
    tas = [c for c in node.get('inner', ()) if c.get('kind') == 'TemplateArgument']
    ut = tas[0]['type']['qualType'].replace('PhQ::', '')
    vals = []
    for ta in tas[1:3]:
        v = ta.get('value')
        if v is None:
            for x in a.walk(ta):
                if x.get('kind') == 'ConstantExpr' and 'value' in x:
                    v = x['value']
                    break
                if x.get('kind') == 'DeclRefExpr' and x['referencedDecl'].get('kind') == 'EnumConstantDecl':
                    v = low.enumconst[x['referencedDecl']['id']][2]
                    break
        vals.append(int(v))
    return ut, vals[0], vals[1]


def member_targ(low, node):
    """Value of the single non-type template argument of an instantiated member template (Create<u>, StaticValue<u>)."""
    a = low.ast
    for ta in [c for c in node.get('inner', ()) if c.get('kind') == 'TemplateArgument']:
        if 'value' in ta:
            return int(ta['value'])
        for x in a.walk(ta):
            if x.get('kind') == 'ConstantExpr' and 'value' in x:
                return int(x['value'])
            if x.get('kind') == 'DeclRefExpr' and x['referencedDecl'].get('kind') == 'EnumConstantDecl':
                return int(low.enumconst[x['referencedDecl']['id']][2])
    raise Unsupported('template argument of %s' % node.get('name'))


def summary_for(low):
    def mapv(S, v, frm, to):
        if isinstance(v, dict):
            return {k: mapv(S, w, frm, to) for k, w in v.items()}
        if isinstance(v, list):
            return [mapv(S, w, frm, to) for w in v]
        return S.app('convert', [S.tonum(v), S.tonum(frm), S.tonum(to)])

    def inplace(S, g, args, st):
        p = args[0]
        if not isinstance(p, Ptr):
            raise Unsupported('ConvertInPlace on a non-reference')
        S.store(st, p, mapv(S, S.load(st, p), args[1], args[2]))
        return None

    def copying(S, g, args, st):
        x = args[0]
        if isinstance(x, Ptr):
            x = S.load(st, x)
        return mapv(S, x, args[1], args[2])

    cache = {}

    def pick(g):
        if g.cname in cache:
            return cache[g.cname]
        r = None
        nm = g.node.get('name')
        if g.kind == 'func' and nm == 'ConvertInPlace' and len(g.params) == 3:
            r = inplace
        elif g.kind == 'func' and nm == 'Convert' and len(g.params) == 3:
            r = copying
        elif g.kind == 'func' and nm == 'ConvertStatically' and len(g.params) == 1:
            ut, a, b = static_args(low, g.node)

            def static(S, g2, args, st, a=a, b=b):
                x = args[0]
                if isinstance(x, Ptr):
                    x = S.load(st, x)
                return mapv(S, x, num(a), num(b))
            r = static
        cache[g.cname] = r
        return r
    return pick


def want_conv(x, frm, to):
    return ('app', 'convert', (x, frm, to))


def is_conv(t, x, frm, to):
    return isinstance(t, tuple) and t[0] == 'app' and t[1] == 'convert' and tuple(t[2]) == (x, frm, to)


def unit_type_of(low, canon):
    """Unit enumeration of a quantity record: first template argument of its Dimensional* base (or of itself)."""
    r = low.record(canon)
    if (r.template or '').startswith('Dimensional'):
        return r.targs[0], canon
    for b in r.bases:
        rb = low.record(b)
        if (rb.template or '').startswith('Dimensional'):
            return rb.targs[0], b
    return None, None


def run_all(check, types=('double', 'float', 'long double')):
    """All three numeric types: a member can be wrong in one instantiation only (a defaulted Vector<> temporary, a literal)."""
    from ..core import pmap
    loaded = pmap(lambda T: Quant(check, types=(T,), other_types=(), conv=False, hash_=False, members=True), list(types))
    tot = {}
    for T, Q in zip(types, loaded):
        st = run(check, T, Q)
        for k, v in st.items():
            tot[k] = tot.get(k, 0) + v
    check.extra['member_forms'] = tot
    return tot


def run(check, T='double', Q=None):
    if Q is None:
        Q = Quant(check, types=(T,), other_types=(), conv=False, hash_=False, members=True)
    low = Q.low
    Tb = low.get_tables()
    pick = summary_for(low)
    obs = []
    metas = {}
    stats = {'ctor': 0, 'Create': 0, 'StaticValue': 0, 'Value': 0, 'classes': 0}

    def std_of(ut):
        return int(Tb.standard(ut)[2])

    def check_fn(canon, f, ut, what, arg_unit):
        """what: 'in' (arguments in a unit -> stored standard value) or 'out' (stored value -> value in a unit)."""
        S = SymEx(low, summary_for=pick)
        sc = SymCall(low, f, symex=S)
        std = num(std_of(ut))
        nm = f.node.get('name')
        name = 'C02.member.%s.%s%s' % (canon.replace(' ', ''), 'ctor' if f.kind == 'ctor' else nm,
                                       '(' + ','.join(short_type(low, pt) for _, pt in f.params[(0 if f.kind == 'static' else 1):]) + ')')
        ob = Ob(name, 'REAL', f.qualname, Q.loc(f))
        ob.backend = 'phqv symex (entry points replaced by their contract)'
        bad = []
        if what == 'in':
            ins = []
            for i, (pn, pt) in enumerate(f.params):
                if f.kind == 'ctor' and i == 0:
                    continue
                vt = pt[1] if pt[0] in ('ptr', 'ref') else pt
                if vt[0] == 'enum':
                    continue
                ins += leaves(sc.pre[pn])
            unit = arg_unit if arg_unit is not None else sc.pre[[pn for pn, pt in f.params if (pt[1] if pt[0] in ('ptr', 'ref') else pt)[0] == 'enum'][0]]
            out = leaves(sc.post[f.params[0][0]]) if f.kind == 'ctor' else leaves(sc.ret)
            if len(ins) != len(out):
                bad.append('%d input components, %d stored components' % (len(ins), len(out)))
            else:
                for i, (x, y) in enumerate(zip(ins, out)):
                    if not is_conv(y, x, unit, std):
                        bad.append('stored component %d is %s, expected convert(argument %d, given unit, standard unit)' % (i, brief(y), i))
            ob.text = 'for all arguments%s: stored component i == Convert(argument i, unit, Standard) for every i (%d components), each converted exactly once' % (
                ' and all units' if arg_unit is None else ' (unit = enumerator %s)' % arg_unit[1], len(ins))
        else:
            self_v = leaves(sc.pre[f.params[0][0]])
            unit = arg_unit if arg_unit is not None else sc.pre[f.params[1][0]]
            out = leaves(sc.ret)
            if len(self_v) != len(out):
                bad.append('%d stored components, %d returned' % (len(self_v), len(out)))
            else:
                for i, (x, y) in enumerate(zip(self_v, out)):
                    if not is_conv(y, x, std, unit):
                        bad.append('returned component %d is %s, expected convert(stored component %d, standard unit, requested unit)' % (i, brief(y), i))
            if leaves(sc.post[f.params[0][0]]) != self_v:
                bad.append('the accessor modifies the stored value')
            ob.text = 'for all stored values%s: returned component i == Convert(stored component i, Standard, unit) and the object is unchanged' % (
                ' and all units' if arg_unit is None else ' (unit = enumerator %s)' % arg_unit[1])
        if S.narrow_bad:
            to, frm, fn, res = S.narrow_bad[0]
            bad.append('a %s value is narrowed to %s inside %s on its way into a %s result' % (frm, to, fn, res))
        ob.status = 'discharged' if not bad else 'failed'
        if bad:
            ob.detail = '; '.join(bad[:3])
            metas[id(ob)] = (canon, f, ut, what, arg_unit)
        check.under_contract(f)
        return ob

    seen_names = {}
    canons = [Q.canon(cls, T) for cls in Q.names if cls not in TENSORS and cls not in BASES]
    canons += sorted(c for c, r in low.records.items() if (r.template or '').startswith('Dimensional') and r.targs and r.targs[-1] == T)
    for canon in canons:
        if canon not in low.records:
            continue
        ut, base = unit_type_of(low, canon)
        if ut is None:
            continue
        stats['classes'] += 1
        for f in Q.methods(canon):
            nm = f.node.get('name')
            try:
                ob = None
                if f.kind == 'ctor':
                    ps = f.params[1:]
                    kinds = [(pt[1] if pt[0] in ('ptr', 'ref') else pt)[0] for _, pt in ps]
                    if kinds and kinds[-1] == 'enum' and kinds.count('enum') == 1 and all(value_like(low, pt) for _, pt in ps[:-1]) and len(ps) >= 2:
                        ob = check_fn(canon, f, ut, 'in', None)
                        stats['ctor'] += 1
                elif f.kind == 'static' and nm == 'Create':
                    u = member_targ(low, f.node)
                    ob = check_fn(canon, f, ut, 'in', num(u))
                    ob.name += '<%d>' % u
                    stats['Create'] += 1
                elif f.kind == 'method' and nm == 'StaticValue':
                    u = member_targ(low, f.node)
                    ob = check_fn(canon, f, ut, 'out', num(u))
                    ob.name += '<%d>' % u
                    stats['StaticValue'] += 1
                elif f.kind == 'method' and nm == 'Value' and len(f.params) == 2:
                    ob = check_fn(canon, f, ut, 'out', None)
                    stats['Value'] += 1
                if ob is not None:
                    seen_names[ob.name] = seen_names.get(ob.name, 0) + 1
                    if seen_names[ob.name] > 1:
                        ob.name += '#%d' % seen_names[ob.name]
                    obs.append(ob)
            except Unsupported as e:
                check.error('C02.member %s::%s: %s' % (canon, nm, e))
    # the representative instantiations of the Dimensional* bases (all members) are records of their own: handled above
    check.extra['member_forms'] = stats
    if stats['ctor'] < 80 or stats['Create'] < 150 or stats['StaticValue'] < 10 or stats['Value'] < 5:
        check.error('must-fire: member forms found %s' % stats)
    for ob in obs:
        check.add(ob)
        if ob.status == 'failed':
            adjudicate(check, low, ob, T, metas[id(ob)])
    return stats


def value_like(low, pt):
    vt = pt[1] if pt[0] in ('ptr', 'ref') else pt
    if vt[0] == 'f':
        return True
    if vt[0] == 'sarr' and vt[1][0] == 'f':
        return True
    if vt[0] == 'rec' and vt[1] in low.records and low.records[vt[1]].template in TENSORS:
        return True
    return False


def short_type(low, pt):
    vt = pt[1] if pt[0] in ('ptr', 'ref') else pt
    if vt[0] == 'f':
        return 'number'
    if vt[0] == 'sarr':
        return 'array%d' % vt[2]
    if vt[0] == 'enum':
        return 'unit'
    if vt[0] == 'rec':
        return (low.records[vt[1]].template if vt[1] in low.records else vt[1]) or vt[1]
    return vt[0]


def brief(t):
    s = repr(t)
    return s if len(s) < 140 else s[:137] + '...'


def adjudicate(check, low, ob, T, meta):
    """Native replay: call the member on fixed components for a few units and compare every component with the scalar
    conversion of that component."""
    canon, f, ut, what, arg_unit = meta
    rec = {'property': 'C02', 'obligation': ob.name, 'function': ob.function, 'source': ob.loc, 'verifier_output': ob.detail, 'text': ob.text}
    confirmed = False
    try:
        utn = ut.split('::')[1]
        cls = low.record(canon).template
        QT = 'PhQ::%s<%s>' % (cls, T) if not cls.startswith('Dimensional') else 'PhQ::%s<PhQ::%s, %s>' % (cls, ut, T)
        n = len(replay.leaf_types(low, ('rec', canon)))
        enums = sorted((v, k) for k, v in ((e[1], e[2]) for e in low.enumconst.values() if e[0] == ut))
        units = [arg_unit[1]] if arg_unit is not None else [v for v, _ in enums[:3] + enums[-3:]]
        nm = f.node.get('name')
        body = ''
        ps = f.params[(0 if f.kind == 'static' else 1):]
        for u in units:
            U = 'static_cast<PhQ::%s>(%d)' % (ut, int(u))
            if what == 'in':
                args, flat = [], []
                k = 0
                vals = [1.5, -2.5, 3.5, 4.5, -5.5, 6.5, 7.5, -8.5, 9.5]
                for pn, pt in ps:
                    vt = pt[1] if pt[0] in ('ptr', 'ref') else pt
                    if vt[0] == 'enum':
                        args.append(U)
                    elif vt[0] == 'f':
                        args.append(repr(vals[k])); flat.append(vals[k]); k += 1
                    else:
                        m = len(replay.leaf_types(low, vt))
                        tn = 'std::array<%s, %d>' % (T, m) if vt[0] == 'sarr' else 'PhQ::%s<%s>' % (low.records[vt[1]].template, T)
                        if vt[0] == 'sarr':
                            args.append('%s{%s}' % (tn, ', '.join(repr(v) for v in vals[k:k + m])))
                        else:
                            args.append('%s(%s)' % (tn, ', '.join(repr(v) for v in vals[k:k + m])))
                        flat += vals[k:k + m]; k += m
                call = ('%s(%s)' % (QT, ', '.join(args))) if f.kind == 'ctor' else ('%s::Create<%s>(%s)' % (QT, U, ', '.join(args)))
                body += '  { auto q = %s; %s got[%d]; std::memcpy(got, &q, sizeof got); const %s in[%d] = {%s};\n' % (call, T, n, T, max(len(flat), 1), ', '.join(repr(v) for v in flat))
                body += '    for (int i = 0; i < %d; ++i) { %s want = PhQ::Convert(in[i], %s, PhQ::Standard<PhQ::%s>); if (!(got[i] == want)) { std::printf("MISMATCH unit %d component %%d: stored %%.17g, scalar conversion gives %%.17g\\n", i, (double)got[i], (double)want); bad++; } } }\n' % (
                    n, T, U, ut, int(u))
            else:
                vals = [1.5, -2.5, 3.5, 4.5, -5.5, 6.5, 7.5, -8.5, 9.5][:n]
                call = 'q.Value(%s)' % U if nm == 'Value' else 'q.template StaticValue<%s>()' % U
                body += '  { const %s raw[%d] = {%s}; %s q = PhQ::%s<%s>::Zero(); std::memcpy(&q, raw, sizeof raw); auto r = %s; %s got[%d]; std::memcpy(got, &r, sizeof got);\n' % (
                    T, n, ', '.join(repr(v) for v in vals), QT, cls, T, call, T, n)
                body += '    for (int i = 0; i < %d; ++i) { %s want = PhQ::Convert(raw[i], PhQ::Standard<PhQ::%s>, %s); if (!(got[i] == want)) { std::printf("MISMATCH unit %d component %%d: returned %%.17g, scalar conversion gives %%.17g\\n", i, (double)got[i], (double)want); bad++; } } }\n' % (
                    n, T, ut, U, int(u))
        hdr = cls if not cls.startswith('Dimensional') else cls
        cpp = '#include <PhQ/%s.hpp>\n#include <PhQ/Unit/%s.hpp>\n#include <cstdio>\n#include <cstring>\n#include <array>\nint main() {\n  int bad = 0;\n%s  return bad ? 1 : 0;\n}\n' % (hdr, utn, body)
        r, err = replay.build_and_run(cpp, os.path.join(check.work, 'replay'), 'r_' + re.sub(r'\W+', '_', ob.name))
        if err:
            rec['replay_error'] = err[:600]
        else:
            rec['cpp'], rec['native_output'] = cpp, r.stdout[:2000]
            if 'MISMATCH' in r.stdout:
                confirmed, rec['mismatch'] = True, r.stdout.strip().split('\n')[:6]
    except Exception as e:
        rec['replay_error'] = '%s: %s' % (type(e).__name__, e)
    rec['confirmed'] = confirmed
    check.violations.append((ob, write_replay(check, ob, rec), '' if confirmed else 'no-failing-input-found'))
