"""C14 - comparison is a total order on stored values; equal objects hash equally."""
import os, re
from fractions import Fraction
from ..core import Ob, pmap
from .. import astload, cemit, replay
from ..lower import Unsupported, tstr
from ..ieeeob import IeeeJob, HarnessJob, param_leaves, cleaves, isnan_fn, write_replay
from .quant_common import Quant, TENSORS

OPS = {'operator==': '==', 'operator!=': '!=', 'operator<': '<', 'operator>': '>', 'operator<=': '<=', 'operator>=': '>='}


def lexless(a, b):
    """C expression: a lexicographically less than b over leaf lists."""
    if not a:
        return '0'
    if len(a) == 1:
        return '(%s < %s)' % (a[0], b[0])
    return '((%s < %s) || ((%s == %s) && %s))' % (a[0], b[0], a[0], b[0], lexless(a[1:], b[1:]))


def alleq(a, b):
    return '(' + ' && '.join('(%s == %s)' % (x, y) for x, y in zip(a, b)) + ')'


def spec(op, a, b):
    if op == '==':
        return alleq(a, b)
    if op == '!=':
        return '!' + alleq(a, b)
    if op == '<':
        return lexless(a, b)
    if op == '>':
        return lexless(b, a)
    if op == '<=':
        return '(%s || %s)' % (lexless(a, b), alleq(a, b))
    return '(%s || %s)' % (lexless(b, a), alleq(a, b))


def py_spec(op, a, b):
    a, b = [float(x) for x in a], [float(x) for x in b]
    less = a < b     # python list comparison is lexicographic; +0 == -0
    gt = b < a
    eq = a == b
    return {'==': eq, '!=': not eq, '<': less, '>': gt, '<=': less or eq, '>=': gt or eq}[op]


def run(check):
    tier = check.tier
    types = ['double'] if tier == 'quick' else ['double', 'float']
    check.checker_cmd = 'clang++ -ast-dump=json (filters PhQ, hash; ASLR off) | phqv lower | goto-cc | goto-instrument --dfcc --enforce-contract operator<op> | cbmc (MiniSat) ; hash: cbmc --cvc5 harness'
    check.assume('IEEE mode: comparison semantics of binary32/binary64 as modelled by CBMC; inputs are any non-NaN bit patterns (signed zeros and infinities included)')
    check.assume('std::hash<floating> contract (libstdc++): a function of the value for non-zero values, 0 for both zeros; modelled by an uninterpreted function of the canonicalised value')
    check.assume('strict total order / trichotomy / transitivity are properties of the lexicographic order on non-NaN reals (not re-proved per type); usability in std::set / std::unordered_set follows from the container requirements')
    if tier == 'thorough':
        check.notes.append('long double: comparison obligations are not run (CBMC long double is binary128); the operator bodies are the same template text as for double')
    jobs = []
    nclasses = 0
    for T in types:
        Q = Quant(check, types=(T,), other_types=(), conv=False, hash_=True)
        low = Q.low
        tag = T.replace(' ', '_')
        frees = Q.free_functions(names=set(OPS))
        byrec = {}
        for f in frees:
            if len(f.params) != 2:
                continue
            pt = f.params[0][1]
            if pt[0] != 'ptr' or pt[1][0] != 'rec' or f.params[1][1] != pt:
                continue
            byrec.setdefault(pt[1][1], {})[f.node['name']] = f
        hashes = Q.hash_ops()
        classes = [c for c in list(TENSORS) + Q.quantities + ['Dimensions']]
        for cls in classes:
            canon = cls if cls == 'Dimensions' else Q.canon(cls, T)
            if canon not in low.records:
                check.error('C14: class %s not found' % canon)
                continue
            nclasses += 1
            ops = byrec.get(canon, {})
            missing = [o for o in OPS if o not in ops]
            if missing:
                check.error('C14: %s lacks instantiated %s' % (canon, missing))
            t = ('rec', canon)
            for oname, f in sorted(ops.items()):
                pl = param_leaves(low, f)
                a, b = pl[f.params[0][0]], pl[f.params[1][0]]
                lts = replay.leaf_types(low, t)
                req = []
                for x, lt in zip(a + b, lts + lts):
                    if lt[0] == 'f':
                        req.append('!%s(%s)' % (isnan_fn(lt[1]), x))
                op = OPS[oname]

                def pred(w, out, run, op=op, f=f):
                    got = out.get('RET', [None])[0]
                    want = py_spec(op, w[f.params[0][0]], w[f.params[1][0]])
                    if got is None:
                        return []
                    if bool(got) != want:
                        return ['(a %s b) returned %s, lexicographic comparison of the stored components gives %s' % (op, bool(got), want)]
                    return []
                opn = {'==': 'eq', '!=': 'ne', '<': 'lt', '>': 'gt', '<=': 'le', '>=': 'ge'}[op]
                j = IeeeJob(check, 'C14.cmp.%s.%s.%s' % (cls, opn, tag), low, f, ensures=['__CPROVER_return_value == %s' % spec(op, a, b)],
                            requires=req, backend='sat', timeout=120, predicate=pred)
                j.gen = gen_ties
                jobs.append(j)
                check.under_contract(f)
            # hash consistency (2-safety)
            if canon in hashes:
                node, ht = hashes[canon]
                try:
                    hf = low.lower_func(node)
                except Unsupported as e:
                    check.error('hash of %s: %s' % (canon, e))
                    continue
                E = cemit.CEmitter(low)
                ct = E.ctype(t)
                la, lb = cleaves(low, 'a', t), cleaves(low, 'b', t)
                lts = replay.leaf_types(low, t)
                nn = ' && '.join('!%s(%s) && !%s(%s)' % (isnan_fn(lt[1]), x, isnan_fn(lt[1]), y) for x, y, lt in zip(la, lb, lts) if lt[0] == 'f') or '1'
                harness = 'void harness(void) {\n  %s a; %s b;\n  __CPROVER_assume(%s);\n  __CPROVER_assume(%s);\n  __CPROVER_assert(%s(&a) == %s(&b), "equal objects have equal hashes");\n}\n' % (
                    ct, ct, nn, alleq(la, lb), hf.cname, hf.cname)
                hj = HarnessJob(check, 'C14.hash.%s.%s' % (cls, tag), low, [hf], harness, 1, function='std::hash<%s>::operator()' % canon,
                                loc=Q.loc(hf), backend=['cvc5', 'sat'], timeout=120)
                hj.t, hj.hf = t, hf
                jobs.append(hj)
                check.under_contract(hf)
            else:
                check.error('C14: no std::hash specialisation found for %s' % canon)
        for nm, why in Q.skipped:
            if 'string' in why or 'ostream' in why:
                continue
            check.notes.append('not translated: %s: %s' % (nm, why))
    # ---- constitutive models: same obligations on their stored moduli / viscosities (declaration order)
    from .models_common import Models
    from ..tu import MODELS
    for T in types:
        M = Models(check, types=(T,))
        M.free_functions = lambda names=None, M=M: Quant.free_functions(M, names)
        M.hash_ops = lambda M=M: Quant.hash_ops(M)
        low = M.low
        tag = T.replace(' ', '_')
        byrec = {}
        for f in M.free_functions(names=set(OPS)):
            if len(f.params) == 2 and f.params[0][1][0] == 'ptr' and f.params[0][1][1][0] == 'rec' and f.params[1][1] == f.params[0][1]:
                byrec.setdefault(f.params[0][1][1][1], {})[f.node['name']] = f
        hashes = M.hash_ops()
        for cls in MODELS:
            canon = M.canon(cls, T)
            if canon not in low.records:
                check.error('C14: model %s not found' % canon)
                continue
            nclasses += 1
            ops = byrec.get(canon, {})
            missing = [o for o in OPS if o not in ops]
            if missing:
                check.error('C14: %s lacks instantiated %s' % (canon, missing))
            t = ('rec', canon)
            fields = [fn for fn, ft in low.record(canon).fields]
            for oname, f in sorted(ops.items()):
                pl = param_leaves(low, f)
                a, b = pl[f.params[0][0]], pl[f.params[1][0]]
                lts = replay.leaf_types(low, t)
                req = ['!%s(%s)' % (isnan_fn(lt[1]), x) for x, lt in zip(a + b, lts + lts) if lt[0] == 'f']
                op = OPS[oname]
                opn = {'==': 'eq', '!=': 'ne', '<': 'lt', '>': 'gt', '<=': 'le', '>=': 'ge'}[op]
                j = IeeeJob(check, 'C14.cmp.%s.%s.%s' % (cls, opn, tag), low, f, ensures=['__CPROVER_return_value == %s' % spec(op, a, b)],
                            requires=req, backend='sat', timeout=120, predicate=None)
                j.ob.loc = M.loc(f)
                j.model = (canon, cls, T, fields, op)
                jobs.append(j)
                check.under_contract(f)
            if canon in hashes:
                node, ht = hashes[canon]
                try:
                    hf = low.lower_func(node)
                except Unsupported as e:
                    check.error('hash of %s: %s' % (canon, e))
                    continue
                E = cemit.CEmitter(low)
                ct = E.ctype(t)
                la, lb = cleaves(low, 'a', t), cleaves(low, 'b', t)
                lts = replay.leaf_types(low, t)
                nn = ' && '.join('!%s(%s) && !%s(%s)' % (isnan_fn(lt[1]), x, isnan_fn(lt[1]), y) for x, y, lt in zip(la, lb, lts) if lt[0] == 'f') or '1'
                harness = 'void harness(void) {\n  %s a; %s b;\n  __CPROVER_assume(%s);\n  __CPROVER_assume(%s);\n  __CPROVER_assert(%s(&a) == %s(&b), "equal objects have equal hashes");\n}\n' % (
                    ct, ct, nn, alleq(la, lb), hf.cname, hf.cname)
                hj = HarnessJob(check, 'C14.hash.%s.%s' % (cls, tag), low, [hf], harness, 1, function='std::hash<%s>::operator()' % canon,
                                loc=M.loc(hf), backend=['cvc5', 'sat'], timeout=120)
                hj.t, hj.hf = t, hf
                hj.model = (canon, cls, T, fields, 'hash')
                jobs.append(hj)
                check.under_contract(hf)
            else:
                check.error('C14: no std::hash specialisation found for %s' % canon)
    ld_tasks = long_double_tasks(check)
    check.extra['classes_seen'] = nclasses
    check.log('%d obligations' % len(jobs))
    for t, ob in zip(ld_tasks, pmap(lambda t: t.run(), ld_tasks)):
        check.add(ob)
        if ob.status == 'failed':
            rec = {'property': 'C14', 'obligation': ob.name, 'function': ob.function, 'source': ob.loc, 'verifier_output': ob.detail,
                   'solver_model': {k: str(v) for k, v in (ob.cex or {}).items()} if isinstance(ob.cex, dict) else None, 'confirmed': False}
            try:
                f, op = t.meta
                from ..cemit import round_to
                third = round_to(Fraction(1, 3), 'long double')
                third_d = round_to(Fraction(1, 3), 'double')
                n = len(replay.leaf_types(low_ld(t), f.params[0][1][1]))
                # two objects that differ only beyond double precision in their last component
                a = [Fraction(1)] * (n - 1) + [third]
                b = [Fraction(1)] * (n - 1) + [third_d]
                from ..ieeeob import default_includes
                for a, b in ((a, b), (b, a)):
                    cpp = replay.NativeCall(low_ld(t), f).program({f.params[0][0]: a, f.params[1][0]: b}, includes=default_includes(low_ld(t), f))
                    r, err = replay.build_and_run(cpp, os.path.join(check.work, 'replay'), 'r_' + re.sub(r'\W+', '_', ob.name)[:150])
                    if err:
                        rec['replay_error'] = err[:500]
                        break
                    got = replay.parse_out(r.stdout).get('RET', [None])[0]
                    want = {'==': a == b, '!=': a != b, '<': a < b, '>': a > b, '<=': a <= b, '>=': a >= b}[op]
                    rec['cpp'], rec['native_output'] = cpp, r.stdout
                    if got is not None and bool(got) != want:
                        rec['confirmed'], rec['mismatch'] = True, ['(a %s b) returned %s for two long double objects that differ in the last component beyond double precision; the exact comparison gives %s' % (op, bool(got), want)]
                        rec['inputs'] = {'a': [str(x) for x in a], 'b': [str(x) for x in b]}
                        break
            except Exception as e:
                rec['replay_error'] = '%s: %s' % (type(e).__name__, e)
            check.violations.append((ob, write_replay(check, ob, rec), '' if rec['confirmed'] else 'no-failing-input-found'))
    obs = pmap(lambda j: j.run(), jobs)
    for j, ob in zip(jobs, obs):
        check.add(ob)
        if ob.status == 'failed':
            if getattr(j, 'model', None):
                check.violations.append((ob,) + adjudicate_model(check, j, ob))
            elif isinstance(j, IeeeJob):
                path, tail, harmless = j.adjudicate()
                check.violations.append((ob, path, tail))
            else:
                check.violations.append((ob,) + adjudicate_hash(check, j, ob))


def low_ld(t):
    return t.low


def long_double_tasks(check):
    """long double has no bit-precise model: each comparison operator of the long double instantiation is proved equal to the
    lexicographic comparison / equality of the stored components over the reals (z3), with the precision audit (no argument may
    be narrowed before it is compared)."""
    from ..symex import SymEx, cmp, land, lor, lnot, TRUE, FALSE
    from ..realob import SymCall, RealTask, leaves
    T = 'long double'
    Q = Quant(check, types=(T,), other_types=(), conv=False, hash_=False)
    low = Q.low
    tasks = []

    def lex(a, b):
        if not a:
            return FALSE
        return lor(cmp('<', a[0], b[0]), land(cmp('==', a[0], b[0]), lex(a[1:], b[1:])))

    def alleq_t(a, b):
        r = TRUE
        for x, y in zip(a, b):
            r = land(r, cmp('==', x, y))
        return r

    def spec_t(op, a, b):
        return {'==': alleq_t(a, b), '!=': lnot(alleq_t(a, b)), '<': lex(a, b), '>': lex(b, a),
                '<=': lor(lex(a, b), alleq_t(a, b)), '>=': lor(lex(b, a), alleq_t(a, b))}[op]
    byrec = {}
    for f in Q.free_functions(names=set(OPS)):
        if len(f.params) == 2 and f.params[0][1][0] == 'ptr' and f.params[0][1][1][0] == 'rec' and f.params[1][1] == f.params[0][1]:
            byrec.setdefault(f.params[0][1][1][1], {})[f.node['name']] = f
    for cls in list(TENSORS) + Q.quantities:
        canon = Q.canon(cls, T)
        for oname, f in sorted(byrec.get(canon, {}).items()):
            op = OPS[oname]
            try:
                S = SymEx(low)
                sc = SymCall(low, f, symex=S)
                a, b = leaves(sc.pre[f.params[0][0]]), leaves(sc.pre[f.params[1][0]])
                got = S.tobool(sc.ret)
                want = spec_t(op, a, b)
                goal = lor(land(got, want), land(lnot(got), lnot(want)))
            except Unsupported as e:
                check.error('C14.ld.%s.%s: %s' % (cls, oname, e))
                continue
            opn = {'==': 'eq', '!=': 'ne', '<': 'lt', '>': 'gt', '<=': 'le', '>=': 'ge'}[op]
            t = RealTask(check, 'C14.ld.%s.%s' % (cls, opn), S, goal, function=f.qualname, loc=Q.loc(f), timeout=60)
            t.ob.text = 'long double instantiation: (a %s b) == the %s of the stored components over the reals; no argument is narrowed before it is compared' % (op, 'equality' if op in ('==', '!=') else 'lexicographic order')
            t.meta = (f, op)
            t.low = low
            tasks.append(t)
            check.under_contract(f)
    if len(tasks) < 550:
        check.error('must-fire: expected >= 550 long double comparison operators, found %d' % len(tasks))
    return tasks


def gen_ties(rnd, lt):
    if lt[0] == 'f':
        return Fraction(rnd.choice([-1, 0, 1, 2]))
    return rnd.choice([-1, 0, 1])


def adjudicate_hash(check, j, ob):
    low = j.low
    rec = {'property': 'C14', 'obligation': ob.name, 'function': ob.function, 'source': ob.loc, 'verifier_output': ob.detail}
    confirmed = False
    try:
        wa, wb = j.witness('a', j.t), j.witness('b', j.t)
        rec['inputs'] = {'a': [str(x) for x in wa or []], 'b': [str(x) for x in wb or []]}
        if wa and wb:
            ct = replay.cpp_type(low, j.t)
            lts = replay.leaf_types(low, j.t)
            nk = lts[0][1] if lts[0][0] == 'f' else None
            if nk:
                from ..tu import includes
                cpp = includes(astload.all_headers()[:0] + [h for h in astload.all_headers() if 'ConstitutiveModel' not in h])
                cpp += '#include <cstdio>\n#include <cstring>\nint main() {\n'
                for nm, w in (('a', wa), ('b', wb)):
                    cpp += '  %s raw_%s[%d] = {%s}; %s %s; std::memcpy(&%s, raw_%s, sizeof %s);\n' % (
                        nk, nm, len(w), ', '.join(replay.hexlit(x, nk) for x in w), ct, nm, nm, nm, nm)
                cpp += '  std::printf("%%d %%zu %%zu\\n", (int)(a == b), std::hash<%s>()(a), std::hash<%s>()(b));\n  return 0; }\n' % (ct, ct)
                r, err = replay.build_and_run(cpp, os.path.join(check.work, 'replay'), 'r_' + re.sub(r'\W+', '_', ob.name))
                if err:
                    rec['replay_error'] = err
                else:
                    rec['cpp'], rec['native_output'] = cpp, r.stdout
                    ws = r.stdout.split()
                    if len(ws) == 3 and ws[0] == '1' and ws[1] != ws[2]:
                        confirmed = True
                        rec['mismatch'] = ['a == b but hash(a) = %s, hash(b) = %s' % (ws[1], ws[2])]
    except Exception as e:
        rec['replay_error'] = '%s: %s' % (type(e).__name__, e)
    rec['confirmed'] = confirmed
    return write_replay(check, ob, rec), ('' if confirmed else 'no-failing-input-found')


def adjudicate_model(check, j, ob):
    """Native replay for the (polymorphic) model classes: objects are default-constructed and their stored members set
    through -fno-access-control; ties in every prefix of the members are tried."""
    canon, cls, T, fields, op = j.model
    low = j.low
    rec = {'property': 'C14', 'obligation': ob.name, 'function': ob.function, 'source': ob.loc, 'verifier_output': ob.detail}
    confirmed = False
    try:
        ftypes = [low.record(ft[1]).template for fn, ft in low.record(canon).fields]
        n = len(fields)
        import itertools
        vals = [-1.5, 0.0, 2.0]
        cases = list(itertools.product(vals, repeat=2 * n))
        body = ''
        for fn, ftn in zip(fields, ftypes):
            body += '    a.%s = PhQ::%s<%s>(static_cast<%s>(va[k++ %% %d]));\n' % (fn, ftn, T, T, n)
        setter = ''
        cpp = ('#include <PhQ/ConstitutiveModel/%s.hpp>\n#include <cstdio>\n#include <functional>\nusing M = PhQ::ConstitutiveModel::%s<%s>;\n'
               'static void set(M& m, const double* v) {\n%s}\n'
               'int main() {\n  const double vals[] = {-1.5, 0.0, 2.0}; int bad = 0;\n  const int n = %d; int total = 1; for (int i = 0; i < 2 * n; ++i) total *= 3;\n'
               '  for (int c = 0; c < total && bad < 5; ++c) {\n    double va[4], vb[4]; int r = c; for (int i = 0; i < n; ++i) { va[i] = vals[r %% 3]; r /= 3; } for (int i = 0; i < n; ++i) { vb[i] = vals[r %% 3]; r /= 3; }\n'
               '    M a, b; set(a, va); set(b, vb);\n    bool lt = false, eq = true; for (int i = 0; i < n; ++i) { if (va[i] != vb[i]) { eq = false; lt = va[i] < vb[i]; break; } }\n'
               '    const bool gt = !eq && !lt;\n%s  }\n  return bad ? 1 : 0;\n}\n')
        sets = ''.join('  m.%s = PhQ::%s<%s>(static_cast<%s>(v[%d]));\n' % (fn, ftn, T, T, i) for i, (fn, ftn) in enumerate(zip(fields, ftypes)))
        if op == 'hash':
            chk = ('    if (eq && std::hash<M>()(a) != std::hash<M>()(b)) { std::printf("MISMATCH equal models hash differently (members %g %g)\\n", va[0], va[n - 1]); bad++; }\n')
        else:
            want = {'==': 'eq', '!=': '!eq', '<': 'lt', '>': 'gt', '<=': '(lt || eq)', '>=': '(gt || eq)'}[op]
            chk = ('    if ((a %s b) != %s) { std::printf("MISMATCH (a %s b) = %%d for a = (%%g, %%g), b = (%%g, %%g); lexicographic comparison of the stored members gives %%d\\n", (int)(a %s b), va[0], va[n - 1], vb[0], vb[n - 1], (int)%s); bad++; }\n'
                   % (op, want, op, op, want))
        cpp = cpp % (cls, cls, T, sets, n, chk)
        r, err = replay.build_and_run(cpp, os.path.join(check.work, 'replay'), 'r_' + re.sub(r'\W+', '_', ob.name))
        if err:
            rec['replay_error'] = err[:800]
        else:
            rec['cpp'], rec['native_output'] = cpp, r.stdout[:1000]
            if 'MISMATCH' in r.stdout:
                confirmed, rec['mismatch'] = True, r.stdout.strip().split('\n')[:5]
                rec['inputs'] = {'see': 'mismatch lines'}
    except Exception as e:
        rec['replay_error'] = '%s: %s' % (type(e).__name__, e)
    rec['confirmed'] = confirmed
    return write_replay(check, ob, rec), ('' if confirmed else 'no-failing-input-found')
