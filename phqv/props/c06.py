"""C06 - declared dimension sets equal the dimensions of the units themselves."""
import os, re, json
from fractions import Fraction
from ..core import Ob, pmap
from .. import replay, cemit
from ..lower import Unsupported, tstr
from ..symex import SymEx, State, Ptr, mk, num, cmp, land, lor, lnot, TRUE, FALSE, is_num
from ..realob import RealTask, leaves
from ..ieeeob import IeeeJob, HarnessJob, param_leaves, cleaves, run_jobs, write_replay
from .units_common import Units, UA
from .quant_common import Quant, BASES
from .relations import Dims, DIM_NAMES
from . import c14

SYMBOLS = {'Time': 'T', 'Length': 'L', 'Mass': 'M', 'ElectricCurrent': 'I', 'Temperature': 'Θ', 'SubstanceAmount': 'N', 'LuminousIntensity': 'J'}


def dim_tokens(name, e):
    """The property's printed form of one base dimension with exponent e (guarded tokens)."""
    big, negv = cmp('<', num(1), e), cmp('<', e, num(0))
    return [(lnot(cmp('==', e, num(0))), ('LIT', SYMBOLS[name])),
            (big, ('LIT', '^')), (big, ('INT', e)),
            (negv, ('LIT', '^(')), (negv, ('INT', e)), (negv, ('LIT', ')'))]


def norm(tokv):
    """Split multi-character literals that the spec writes as separate tokens? No: keep tokens, merge adjacent literals
    with identical guards so that "^" + "(" style differences do not matter."""
    out = []
    for g, tok in tokv:
        if out and tok[0] == 'LIT' and out[-1][1][0] == 'LIT' and out[-1][0] == g:
            out[-1] = (g, ('LIT', out[-1][1][1] + tok[1]))
        else:
            out.append((g, tok))
    return out


def term_eval(t, env):
    """Evaluate a guard / value term under a total assignment of its symbols (exact)."""
    op = t[0]
    if op == 'num':
        return t[1]
    if op == 'sym':
        return env[t[1]]
    if op == 'true':
        return True
    if op == 'false':
        return False
    if op == 'not':
        return not term_eval(t[1], env)
    if op == 'and':
        return term_eval(t[1], env) and term_eval(t[2], env)
    if op == 'or':
        return term_eval(t[1], env) or term_eval(t[2], env)
    if op == '<':
        return term_eval(t[1], env) < term_eval(t[2], env)
    if op == '<=':
        return term_eval(t[1], env) <= term_eval(t[2], env)
    if op == '==':
        return term_eval(t[1], env) == term_eval(t[2], env)
    if op == 'ite':
        return term_eval(t[2], env) if term_eval(t[1], env) else term_eval(t[3], env)
    if op == 'neg':
        return -term_eval(t[1], env)
    if op in ('+', '-', '*'):
        a, b = term_eval(t[1], env), term_eval(t[2], env)
        return a + b if op == '+' else a - b if op == '-' else a * b
    raise Unsupported('term %s in a guard' % op)


def guard_atoms(toks):
    """Comparison atoms in the guards; each must compare one symbol with the constants 0 or 1."""
    atoms, seen = set(), set()

    def walk(t):
        if not isinstance(t, tuple) or id(t) in seen:
            return
        seen.add(id(t))
        if t[0] in ('<', '<=', '=='):
            a, b = t[1], t[2]
            ok = (a[0] == 'sym' and b[0] == 'num' and b[1] in (0, 1)) or (b[0] == 'sym' and a[0] == 'num' and a[1] in (0, 1))
            if not ok:
                raise Unsupported('guard atom %r is not a comparison of an exponent with 0 or 1' % (t,))
            atoms.add((a, b, t[0]))
            return
        for c in t[1:]:
            walk(c)
    for g, tok in toks:
        walk(g)
    return atoms


def equiv_tasks(check, name, S, code, spec, function, loc, text):
    """The two guarded token lists denote the same text for every integer valuation of the exponents: all guards
    compare an exponent with 0 or 1, so the cases e < 0, e == 0, e == 1, e > 1 per exponent are exhaustive and the
    emitted token sequence is constant on each case (INT tokens carry the exponent itself)."""
    from itertools import product
    ob = Ob(name, 'REAL', function, loc)
    ob.backend = 'phqv symex (token lists) + exhaustive case split over the guard atoms'
    ob.text = text
    try:
        guard_atoms(code)
        guard_atoms(spec)
        syms = sorted(S.syms)
        ncases = 0
        for vals in product((-2, 0, 1, 3), repeat=len(syms)):
            env = dict(zip(syms, [Fraction(v) for v in vals]))
            ncases += 1
            a = [render(tok, env) for g, tok in code if term_eval(g, env)]
            b = [render(tok, env) for g, tok in spec if term_eval(g, env)]
            if ''.join(a) != ''.join(b):
                ob.status = 'failed'
                ob.detail = 'exponents %s: the code prints "%s", the property requires "%s"' % (dict((k, int(v)) for k, v in env.items()), ''.join(a), ''.join(b))
                ob.cex = env
                return ob
        ob.status = 'discharged'
        ob.detail = '%d cases' % ncases
    except Unsupported as e:
        ob.status, ob.detail = 'error', str(e)
    return ob


def render(tok, env):
    if tok[0] == 'LIT':
        return tok[1]
    if tok[0] == 'INT':
        v = term_eval(tok[1], env)
        return str(int(v))
    raise Unsupported('token %s in a dimension string' % tok[0])


def run(check):
    check.checker_cmd = 'clang++ -ast-dump=json | phqv tables/lower ; exact exponent arithmetic vs spec/unit_atoms.py ; phqv symex (token lists) -> z3 ; goto-cc | goto-instrument --dfcc | cbmc (Dimensions comparisons / hash)'
    check.assume('unit oracle spec/unit_atoms.py: exponent vector of each unit symbol from SI/NIST definitions, independent of the headers')
    check.assume('Dimensions::Print: integers treated as reals in the guard equivalences (all guards are comparisons with 0 and 1); std::to_string(int) is the token INT(value)')
    # ------------------------------------------------------------------ units: every symbol expands to the declared set
    units = Units(check, types=['double'], shapes=False)
    T = units.tables
    nunits = 0
    for ut in units.unit_types:
        utn = ut.split('::')[1]
        declared = tuple(e for _, e in T.related_dimensions(ut))
        for uname, sym in units.abbreviations(ut).items():
            nunits += 1
            ob = Ob('C06.dims.%s.%s' % (utn, uname), 'ground', 'RelatedDimensions<%s>' % ut, 'include/PhQ/Unit/%s.hpp' % utn)
            ob.backend = 'exact exponent arithmetic'
            try:
                A, pik, B, d = UA.conversion(ut, sym)
            except UA.OracleGap as e:
                ob.status, ob.detail = 'error', 'oracle gap: %s' % e
                check.add(ob)
                continue
            ob.text = 'exponents (T,L,M,I,Θ,N,J) of "%s" = %s == RelatedDimensions<%s> = %s' % (sym, list(d), ut, list(declared))
            ob.status = 'discharged' if tuple(d) == declared else 'failed'
            if ob.status == 'failed':
                ob.detail = 'unit %s::%s ("%s") has dimensions %s, the type declares %s' % (ut, uname, sym, list(d), list(declared))
                rec = {'property': 'C06', 'obligation': ob.name, 'verifier_output': ob.detail, 'confirmed': True, 'mismatch': [ob.detail],
                       'cpp': '#include <PhQ/Unit/%s.hpp>\n#include <iostream>\nint main() { std::cout << PhQ::RelatedDimensions<PhQ::Unit::%s> << std::endl; return 0; }\n' % (utn, utn)}
                check.violations.append((ob, write_replay(check, ob, rec), ''))
            check.add(ob)
    check.extra['units_seen'] = nunits
    if nunits < 500:
        check.error('must-fire: expected >= 500 units, found %d' % nunits)
    del units
    # ------------------------------------------------------------------ quantities forward to the unit type's set
    Q = Quant(check, types=('double',), other_types=(), conv=False, hash_=True)
    low = Q.low
    D = Dims(Q)
    nq = 0
    for cls in Q.quantities:
        canon = Q.canon(cls, 'double')
        ob = Ob('C06.quantity.%s' % cls, 'ground', canon + '::Dimensions', dict(Q.class_list).get(cls))
        ob.backend = 'phqv symex on the instantiated Dimensions()'
        check.add(ob)
        try:
            r = low.record(canon)
            base = r.bases[0]
            f = [g for g in Q.methods(base) if g.node.get('name') == 'Dimensions' and g.kind == 'static']
            if len(f) != 1:
                raise Unsupported('Dimensions() of %s: %d found' % (base, len(f)))
            S = SymEx(low)
            st = State()
            ret = S.call(f[0], [], st)
            val = S.load(st, ret) if isinstance(ret, Ptr) else ret
            got = tuple(int(x[1]) if is_num(x) else None for x in leaves(val))
            want = D.of_type(('rec', canon))
            ob.text = '%s::Dimensions() == %s' % (cls, list(want))
            ob.status = 'discharged' if got == want else 'failed'
            if ob.status == 'failed':
                ob.detail = 'Dimensions() returns %s, the unit type declares %s' % (list(got), list(want))
                rec = {'property': 'C06', 'obligation': ob.name, 'verifier_output': ob.detail, 'confirmed': False}
                check.violations.append((ob, write_replay(check, ob, rec), 'no-failing-input-found'))
            nq += 1
            check.under_contract(f[0])
        except Unsupported as e:
            ob.status, ob.detail = 'error', str(e)
    check.extra['quantity_types_seen'] = nq
    # ------------------------------------------------------------------ printed form, for all exponent tuples
    tasks = []
    for name in DIM_NAMES:
        canon = 'Dimension::' + name
        f = [g for g in Q.methods(canon) if g.node.get('name') == 'Print']
        if len(f) != 1:
            check.error('C06: %s::Print not found' % canon)
            continue
        S = SymEx(low)
        st = State()
        e = S.sym('e')
        b = S.newbox(st, {'value': e})
        code = list(S.as_tokv(S.call(f[0], [Ptr(b, ())], st))[1])
        t = equiv_tasks(check, 'C06.print.%s' % name, S, code, dim_tokens(name, e), f[0].qualname, Q.loc(f[0]),
                        'Dimension::%s{e}.Print() == "%s" if e == 1, "%s^e" if e > 1, "%s^(e)" if e < 0, "" if e == 0, for every e' % (name, SYMBOLS[name], SYMBOLS[name], SYMBOLS[name]))
        tasks.append(t)
        check.under_contract(f[0])
    f = [g for g in Q.methods('Dimensions') if g.node.get('name') == 'Print']
    if len(f) != 1:
        check.error('C06: Dimensions::Print not found')
    else:
        S = SymEx(low)
        st = State()
        es = [S.sym('e_' + n) for n in DIM_NAMES]
        rec = low.record('Dimensions')
        val = {fn: {'value': e} for (fn, ft), e in zip(rec.fields, es)}
        if [ft[1] for fn, ft in rec.fields] != ['Dimension::' + n for n in DIM_NAMES]:
            check.error('C06: data members of Dimensions are %s (expected T, L, M, I, Θ, N, J in that order)' % [ft[1] for fn, ft in rec.fields])
        b = S.newbox(st, val)
        code = list(S.as_tokv(S.call(f[0], [Ptr(b, ())], st))[1])
        spec = []
        seen_any = FALSE
        for n, e in zip(DIM_NAMES, es):
            nz = lnot(cmp('==', e, num(0)))
            spec.append((land(nz, seen_any), ('LIT', '·')))
            spec += dim_tokens(n, e)
            seen_any = lor(seen_any, nz)
        spec.append((lnot(seen_any), ('LIT', '1')))
        t = equiv_tasks(check, 'C06.print.Dimensions', S, code, spec, f[0].qualname, Q.loc(f[0]),
                        'Dimensions::Print() lists exactly the non-zero exponents in the order T, L, M, I, Θ, N, J joined by "·", and prints "1" when all are zero, for every exponent 7-tuple')
        tasks.append(t)
        check.under_contract(f[0])
    for t in tasks:
        if isinstance(t, Ob):
            check.add(t)
            if t.status == 'failed':
                print_replay(check, t)
    rts = [t for t in tasks if not isinstance(t, Ob)]
    for t, ob in zip(rts, pmap(lambda t: t.run(), rts)):
        check.add(ob)
        if ob.status == 'failed':
            print_replay(check, ob)
    # ------------------------------------------------------------------ equality, ordering and hash of the exponent 7-tuple
    jobs = []
    frees = Q.free_functions(names=set(c14.OPS))
    ops = {}
    for g in frees:
        if len(g.params) == 2 and g.params[0][1] == ('ptr', ('rec', 'Dimensions')) and g.params[1][1] == g.params[0][1]:
            ops[g.node['name']] = g
    if sorted(ops) != sorted(c14.OPS):
        check.error('C06: comparison operators of Dimensions found: %s' % sorted(ops))
    for oname, g in sorted(ops.items()):
        pl = param_leaves(low, g)
        a, b2 = pl[g.params[0][0]], pl[g.params[1][0]]
        op = c14.OPS[oname]
        opn = {'==': 'eq', '!=': 'ne', '<': 'lt', '>': 'gt', '<=': 'le', '>=': 'ge'}[op]

        def pred(w, out, run, op=op, g=g):
            got = out.get('RET', [None])[0]
            want = c14.py_spec(op, w[g.params[0][0]], w[g.params[1][0]])
            return [] if got is None or bool(got) == want else ['(a %s b) returned %s, the exponent 7-tuples compare %s' % (op, bool(got), want)]
        jobs.append(IeeeJob(check, 'C06.order.%s' % opn, low, g, ensures=['__CPROVER_return_value == %s' % c14.spec(op, a, b2)], backend='sat', timeout=120, predicate=pred))
        jobs[-1].gen = lambda rnd, lt: rnd.choice([-1, 0, 1])
        check.under_contract(g)
    hashes = Q.hash_ops()
    if 'Dimensions' in hashes:
        node, ht = hashes['Dimensions']
        hf = low.lower_func(node)
        E = cemit.CEmitter(low)
        t_ = ('rec', 'Dimensions')
        ct = E.ctype(t_)
        la, lb = cleaves(low, 'a', t_), cleaves(low, 'b', t_)
        harness = 'void harness(void) {\n  %s a; %s b;\n  __CPROVER_assume(%s);\n  __CPROVER_assert(%s(&a) == %s(&b), "equal dimension sets have equal hashes");\n}\n' % (
            ct, ct, c14.alleq(la, lb), hf.cname, hf.cname)
        jobs.append(HarnessJob(check, 'C06.hash', low, [hf], harness, 1, function='std::hash<PhQ::Dimensions>::operator()', loc=Q.loc(hf), backend=['sat', 'cvc5'], timeout=120))
        check.under_contract(hf)
    else:
        check.error('C06: std::hash<PhQ::Dimensions> not found')
    run_jobs(check, jobs)


def print_replay(check, ob):
    """Replay a printing failure natively over a box of exponent tuples and compare with the property's format."""
    rec = {'property': 'C06', 'obligation': ob.name, 'function': ob.function, 'source': ob.loc, 'verifier_output': ob.detail, 'text': ob.text}
    cpp = r'''#include <PhQ/Dimensions.hpp>
#include <cstdio>
#include <string>
static std::string one(const char* s, int e) { if (e == 0) return ""; std::string r(s); if (e > 1) r += "^" + std::to_string(e); else if (e < 0) r += "^(" + std::to_string(e) + ")"; return r; }
int main() {
  const char* sym[7] = {"T", "L", "M", "I", "\xce\x98", "N", "J"};
  int bad = 0;
  for (int code = 0; code < 2187 && bad < 5; ++code) {
    int e[7]; int c = code; for (int i = 0; i < 7; ++i) { e[i] = (c % 3) - 1; c /= 3; if (e[i] == 1 && (code % 5 == 0)) e[i] = 2; }
    PhQ::Dimensions d{PhQ::Dimension::Time(e[0]), PhQ::Dimension::Length(e[1]), PhQ::Dimension::Mass(e[2]), PhQ::Dimension::ElectricCurrent(e[3]),
                      PhQ::Dimension::Temperature(e[4]), PhQ::Dimension::SubstanceAmount(e[5]), PhQ::Dimension::LuminousIntensity(e[6])};
    std::string want;
    for (int i = 0; i < 7; ++i) { std::string p = one(sym[i], e[i]); if (!p.empty()) { if (!want.empty()) want += "\xc2\xb7"; want += p; } }
    if (want.empty()) want = "1";
    if (d.Print() != want) { std::printf("MISMATCH exponents %d %d %d %d %d %d %d printed \"%s\" expected \"%s\"\n", e[0], e[1], e[2], e[3], e[4], e[5], e[6], d.Print().c_str(), want.c_str()); ++bad; }
  }
  return bad ? 1 : 0;
}
'''
    r, err = replay.build_and_run(cpp, os.path.join(check.work, 'replay'), 'r_' + re.sub(r'\W+', '_', ob.name))
    confirmed = False
    if err:
        rec['replay_error'] = err
    else:
        rec['cpp'], rec['native_output'] = cpp, r.stdout
        if 'MISMATCH' in r.stdout:
            confirmed = True
            rec['mismatch'] = r.stdout.strip().split('\n')[:5]
    rec['confirmed'] = confirmed
    check.violations.append((ob, write_replay(check, ob, rec), '' if confirmed else 'no-failing-input-found'))
