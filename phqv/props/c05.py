"""C05 - relations that undo each other really are mutual inverses."""
import os, re, itertools
from fractions import Fraction
from ..core import Ob, pmap
from .. import replay
from ..lower import Unsupported, tstr
from ..symex import SymEx, mk, num, cmp, land, TRUE, is_num
from ..realob import RealTask, conj, leaves
from ..ieeeob import write_replay, default_includes
from .quant_common import Quant, TENSORS, BASES
from .relations import call_with, param_names, template_of, vt, nleaves

EMBED = [('PlanarVector', 'Vector'), ('PlanarDirection', 'Direction')]


def relation_ctors(Q, T):
    """All constructors whose parameters are all quantities (or vectors/directions): C(X1..Xn)."""
    low = Q.low
    out = []
    for cls in Q.names:
        if cls in BASES:
            continue
        canon = Q.canon(cls, T)
        if canon not in low.records:
            continue
        for f in Q.methods(canon):
            if f.kind != 'ctor' or len(f.params) < 2:
                continue
            ts = [template_of(low, pt) for _, pt in f.params[1:]]
            if any(t is None for t in ts):
                continue
            if any(t == cls for t in ts) and len(ts) == 1:
                continue      # copy / converting constructors
            out.append((cls, ts, f))
    return out


def run(check):
    tier = check.tier
    types = ['double', 'float', 'long double']
    check.checker_cmd = 'clang++ -ast-dump=json | phqv lower | phqv symex (REAL) -> z3 -T:120 qfnra-nlsat'
    check.assume('REAL: machine arithmetic treated as exact real arithmetic; "to within a few ulps" is not machine-checked (for additive pairs such as total = static + dynamic pressure no floating-point implementation can return a to a few ulps of a when a << b; see DESIGN.md)')
    check.assume('all scalar inputs positive (as the property states); for additive relations C = A +/- B the composed argument is whatever the first relation returns')
    check.assume('libm sqrt contract r >= 0 and r*r == x')
    check.assume('the composition is required only where both relations are defined: every divisor met on the way is non-zero and every square-root argument non-negative (e.g. heat capacity ratio != 1 for cp = gamma R/(gamma-1))')
    tasks = []
    npairs = 0
    loaded = dict(zip(types, pmap(lambda T_: Quant(check, types=(T_,), other_types=(), conv=False, hash_=False), types)))
    for T in types:
        Q = loaded[T]
        low = Q.low
        tag = T.replace(' ', '_')
        rels = relation_ctors(Q, T)
        index = {}
        for cls, ts, f in rels:
            index.setdefault((cls, tuple(sorted(ts))), []).append((ts, f))
        seen = set()
        for cls, ts, f in rels:
            # r1: (X1..Xn) -> C.  For each i look for r2: (C, others) -> Xi
            for i, xi in enumerate(ts):
                others = ts[:i] + ts[i + 1:]
                key = (xi, tuple(sorted([cls] + others)))
                for ts2, g in index.get(key, []):
                    pid = (f.cname, i, g.cname)
                    if pid in seen:
                        continue
                    seen.add(pid)
                    if xi in ('Direction', 'PlanarDirection') or cls in ('Direction', 'PlanarDirection'):
                        continue      # normalisation is not invertible (C10 covers magnitude x direction)
                    name = 'C05.inv.%s(%s)[%d].via.%s(%s).real.%s' % (xi, ','.join(ts2), ts2.index(cls), cls, ','.join(ts), tag)
                    try:
                        t = compose_task(check, Q, low, f, ts, i, g, ts2, cls, name)
                    except Unsupported as e:
                        check.error('%s: %s' % (name, e))
                        continue
                    if t is not None:
                        npairs += 1
                        tasks.append(t)
                        check.under_contract(f)
                        check.under_contract(g)
        # lossless embedding of planar types into 3-D ones and back
        for planar, full in EMBED:
            try:
                tasks += embed_tasks(check, Q, low, T, planar, full, tag)
            except Unsupported as e:
                check.error('C05.embed.%s: %s' % (planar, e))
        for cls in Q.quantities:
            if cls.startswith('Planar') and cls[6:] in Q.quantities:
                try:
                    tasks += embed_tasks(check, Q, low, T, cls, cls[6:], tag)
                except Unsupported as e:
                    check.error('C05.embed.%s: %s' % (cls, e))
    check.extra['inverse_pairs'] = npairs
    check.log('%d REAL obligations (%d inverse pairs)' % (len(tasks), npairs))
    if npairs < 250:
        check.error('must-fire: expected >= 250 inverse pairs, found %d' % npairs)
    und = 0
    for t, ob in zip(tasks, pmap(lambda t: t.run(), tasks)):
        check.add(ob)
        if ob.status == 'failed':
            adjudicate(check, t, ob)


def compose_task(check, Q, low, f, ts, i, g, ts2, cls, name):
    """A(C(a, b..), b..) == a for positive inputs."""
    S = SymEx(low)
    pn = param_names(f)
    argl, pos, vals = {}, [], {}
    for k, (p, tmpl) in enumerate(zip(pn, ts)):
        n = nleaves(low, dict(f.params)[p])
        syms = [S.sym('x%d.%d' % (k, j)) for j in range(n)]
        argl[p] = syms
        vals[k] = syms
        if n == 1:
            pos.append(cmp('<', num(0), syms[0]))
    c_leaves, sc1 = call_with(low, f, S, argl)
    # arguments of g: the C just computed, and the "other" inputs matched by class (in order of appearance)
    pool = {}
    for k, tmpl in enumerate(ts):
        if k != i:
            pool.setdefault(tmpl, []).append(vals[k])
    argl2 = {}
    used_c = False
    for p, tmpl in zip(param_names(g), ts2):
        if tmpl == cls and not used_c:
            argl2[p] = c_leaves
            used_c = True
        else:
            if not pool.get(tmpl):
                return None
            argl2[p] = pool[tmpl].pop(0)
    if not used_c:
        return None
    a_back, sc2 = call_with(low, g, S, argl2)
    if len(a_back) != len(vals[i]):
        return None
    if len(c_leaves) < len(vals[i]):
        return None      # the first relation reduces the number of components (projection): not invertible
    goal = conj([cmp('==', x, y) for x, y in zip(a_back, vals[i])])
    # the composition is only required where both relations are defined (no division by zero, real square roots)
    pos = pos + [c for c, _ in S.domain]
    t = RealTask(check, name, S, goal, assumes=pos, function='%s ; %s' % (f.qualname, g.qualname), loc=Q.loc(g), timeout=120)
    t.ob.text = '%s(%s(x...), others) == x_%d for all positive inputs' % (g.qualname, f.qualname, i)
    t.meta = ('inv', low, f, g, ts, ts2, i, cls)
    return t


def embed_tasks(check, Q, low, T, planar, full, tag):
    """Planar -> 3-D -> planar is the identity on the stored components, and the 3-D z component is exactly 0."""
    out = []
    cp, cf = Q.canon(planar, T), Q.canon(full, T)
    up = [f for f in Q.methods(cf) if f.kind == 'ctor' and len(f.params) == 2 and template_of(low, f.params[1][1]) == planar]
    down = [f for f in Q.methods(cp) if f.kind == 'ctor' and len(f.params) == 2 and template_of(low, f.params[1][1]) == full]
    if len(up) != 1 or len(down) != 1:
        raise Unsupported('embedding constructors %s <-> %s: found %d / %d' % (planar, full, len(up), len(down)))
    up, down = up[0], down[0]
    S = SymEx(low)
    p = [S.sym('p.%d' % i) for i in range(2)]
    full_l, _ = call_with(low, up, S, {param_names(up)[0]: p})
    back, _ = call_with(low, down, S, {param_names(down)[0]: full_l})
    goal = land(conj([cmp('==', x, y) for x, y in zip(back, p)]), cmp('==', full_l[2], num(0)))
    if planar in ('PlanarDirection',):
        # directions re-normalise: exact identity only for unit vectors; state it under the representation invariant
        nrm = mk('+', mk('*', p[0], p[0]), mk('*', p[1], p[1]))
        t = RealTask(check, 'C05.embed.%s.real.%s' % (planar, tag), S, goal, assumes=[cmp('==', nrm, num(1))], function=up.qualname, loc=Q.loc(up), timeout=120)
    else:
        t = RealTask(check, 'C05.embed.%s.real.%s' % (planar, tag), S, goal, function=up.qualname, loc=Q.loc(up), timeout=120)
    t.ob.text = '%s(%s(p)) == p and the embedded z component is 0' % (planar, full)
    t.meta = ('embed', low, up, down, None, None, None, None)
    check.under_contract(up)
    check.under_contract(down)
    out.append(t)
    return out


def adjudicate_once(check, t, ob, trial):
    kind, low, f, g = t.meta[:4]
    rec = {'property': 'C05', 'obligation': ob.name, 'function': ob.function, 'source': ob.loc, 'verifier_output': ob.detail,
           'solver_model': {k: str(v) for k, v in (ob.cex or {}).items()} if isinstance(ob.cex, dict) else None, 'text': ob.text}
    confirmed = False
    try:
        primes = [2, 3, 5, 7, 11, 13, 17, 19, 23]
        inputs, k = {}, 0
        for pn in param_names(f):
            n = nleaves(low, dict(f.params)[pn])
            inputs[pn] = [Fraction(primes[(k + j + 2 * trial) % len(primes)], (2, 3, 7, 10)[trial % 4]) for j in range(n)]
            k += n
        r1 = native(check, low, f, inputs, ob, 'a')
        if r1 is not None:
            if kind == 'embed':
                inputs2 = {param_names(g)[0]: r1}
                want = inputs[param_names(f)[0]]
            else:
                _, _, _, _, ts, ts2, i, cls = t.meta
                pool = {}
                for kk, (pn, tm) in enumerate(zip(param_names(f), ts)):
                    if kk != i:
                        pool.setdefault(tm, []).append(inputs[pn])
                inputs2, used = {}, False
                for pn, tm in zip(param_names(g), ts2):
                    if tm == cls and not used:
                        inputs2[pn], used = r1, True
                    else:
                        inputs2[pn] = pool[tm].pop(0)
                want = inputs[param_names(f)[i]]
            r2 = native(check, low, g, inputs2, ob, 'b')
            if r2 is not None:
                rec['inputs'] = {k2: [str(x) for x in v] for k2, v in inputs.items()}
                rec['native_output'] = {'first': [str(x) for x in r1], 'second': [str(x) for x in r2]}
                # at the resolution of the numeric type of the obligation (the native values are read back exactly)
                Tn = ob.name.rsplit('.', 1)[1].replace('_', ' ')
                tol = {'float': 1e-5, 'double': 1e-13, 'long double': 64.0 * 2.0 ** -63}.get(Tn, 1e-9)
                bad = []
                for j, (x, y) in enumerate(zip(r2, want)):
                    try:
                        d_, s_ = abs(Fraction(x) - Fraction(y)), max(Fraction(1), abs(Fraction(y)))
                        off = d_ > Fraction(tol) * s_
                        rel = float(d_ / s_)
                    except (TypeError, ValueError, OverflowError):
                        off, rel = (float(x) != float(y)), float('nan')
                    if off:
                        bad.append('component %d: composing the two relations returns %.21g for the original %.21g (relative difference %.3g, tolerance %.3g at the resolution of %s)' % (
                            j, float(x), float(y), rel, tol, Tn))
                if bad:
                    confirmed, rec['mismatch'] = True, bad
    except Exception as e:
        rec['replay_error'] = '%s: %s' % (type(e).__name__, e)
    rec['confirmed'] = confirmed
    return rec, confirmed


def adjudicate(check, t, ob):
    """Native replay on up to four input sets (a precision loss need not show on every input)."""
    rec, confirmed = None, False
    for trial in range(4):
        rec, confirmed = adjudicate_once(check, t, ob, trial)
        if confirmed or rec.get('replay_error'):
            break
    check.violations.append((ob, write_replay(check, ob, rec), '' if confirmed else 'no-failing-input-found'))


def native(check, low, f, inputs, ob, suffix):
    nc = replay.NativeCall(low, f)
    cpp = nc.program(inputs, includes=default_includes(low, f))
    r, err = replay.build_and_run(cpp, os.path.join(check.work, 'replay'), 'r%s_%d' % (suffix, abs(hash(ob.name)) % 10 ** 9))
    if err:
        raise Unsupported(err[:300])
    out = replay.parse_out(r.stdout)
    return out.get('RET')
