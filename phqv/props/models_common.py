"""Loader for the constitutive-model properties (C12, C13)."""
import os
from .. import astload, lower, tu
from ..lower import Unsupported


class Models:
    def __init__(self, check, types=('double',)):
        wd = os.path.join(check.work, 'ast')
        os.makedirs(wd, exist_ok=True)
        self.inc = astload.patched_include(wd)
        check.assume('extraction: the AST of the constitutive-model headers is taken from a scratch copy of include/ in which the three forward declarations in ConstitutiveModel.hpp lose "= double" (clang rejects the redefinition of a default template argument that GCC accepts); nothing else differs')
        txt = tu.models_tu(tuple(types))
        errs = []
        p = astload.dump(txt, wd, 'models', inc=self.inc, tolerate=errs)
        self.ast = astload.Ast().load(p)
        os.remove(p)
        p2 = astload.dump(txt, wd, 'models', filt='has', inc=self.inc, tolerate=[])
        self.ast.load(p2)
        os.remove(p2)
        for e in errs:
            check.notes.append('clang error tolerated: ' + e.strip())
        self.low = lower.Lowerer(self.ast)
        self.types = list(types)
        self.skipped = []

    def canon(self, model, T):
        return '%s<%s>' % (model, T)

    def methods(self, canon):
        out = []
        r = self.low.record(canon)
        for did, m in r.methods.items():
            if not self.low.has_body(m):
                continue
            try:
                out.append(self.low.lower_func(m))
            except Unsupported as e:
                self.skipped.append(('%s::%s %s' % (canon, m.get('name'), m['type']['qualType'][:60]), str(e)))
        return out

    def loc(self, f):
        if not (f.loc and f.loc[0]):
            return None
        p = f.loc[0]
        if p.startswith(self.inc):
            p = 'include/' + os.path.relpath(p, self.inc)
        return '%s:%s' % (p, f.loc[1])
