"""Shared loader for the quantity-class properties (C03, C04, C05, C10, C11, C14, C16, C17, C18)."""
import os, sys, re
from .. import astload, lower, tu
from ..lower import Unsupported, tstr
from .. import replay

BASES = ('DimensionalScalar', 'DimensionalPlanarVector', 'DimensionalVector', 'DimensionalSymmetricDyad', 'DimensionalDyad',
         'DimensionlessScalar', 'DimensionlessPlanarVector', 'DimensionlessVector', 'DimensionlessSymmetricDyad', 'DimensionlessDyad')
TENSORS = ('PlanarVector', 'Vector', 'SymmetricDyad', 'Dyad')


class Quant:
    def __init__(self, check, types=('double',), other_types=('float',), conv=True, hash_=True, members=False):
        wd = os.path.join(check.work, 'ast')
        self.clang_errors = []
        self.class_list = tu.class_templates()
        nm = 'quantities_' + '_'.join(t.replace(' ', '') for t in types)      # loaders for different types may run side by side
        p = astload.dump(tu.quantities_tu(tuple(types), tuple(other_types), classes=self.class_list, hash_=hash_, conv=conv, members=members),
                         wd, nm, tolerate=self.clang_errors)
        txt = tu.quantities_tu(tuple(types), tuple(other_types), classes=self.class_list, hash_=hash_, conv=conv, members=members)
        self.ast = astload.Ast().load(p)
        os.remove(p)
        if hash_:
            # std::hash<PhQ::X<T>> instantiations live under std::hash and are not matched by the PhQ filter;
            # same TU, second filter, same node ids (ASLR off)
            p2 = astload.dump(txt, wd, nm, filt='has', tolerate=[])
            self.ast.load(p2)
            os.remove(p2)
        self.low = lower.Lowerer(self.ast)
        self.types = list(types)
        self.names = [c for c, h in self.class_list if 'ConstitutiveModel' not in h]
        self.quantities = [c for c in self.names if c not in BASES and c not in TENSORS]
        for e in self.clang_errors:
            check.notes.append('clang error tolerated (member cannot be instantiated; reported as outside the subset): ' + e.strip())
        self._funcs = {}
        self.skipped = []

    def canon(self, cls, T):
        return '%s<%s>' % (cls, T)

    def nleaves(self, t):
        return len(replay.leaf_types(self.low, t))

    def methods(self, canon):
        """Lowered member functions (with bodies) of a record: [(Func, node)]; failures go to self.skipped."""
        if canon in self._funcs:
            return self._funcs[canon]
        out = []
        r = self.low.record(canon)
        for did, m in r.methods.items():
            if not self.low.has_body(m):
                continue
            try:
                out.append(self.low.lower_func(m))
            except Unsupported as e:
                self.skipped.append(('%s::%s' % (canon, m.get('name')), str(e)))
        self._funcs[canon] = out
        return out

    def free_functions(self, names=None):
        """Lowered instantiations of free function templates in namespace PhQ."""
        if hasattr(self, '_free'):
            return [f for f in self._free if names is None or f.node.get('name') in names]
        a, low = self.ast, self.low
        out = []
        for o in a.walk():
            if o.get('kind') == 'FunctionDecl' and low.has_body(o):
                par = a.up(o)
                if par is None or low._in_use_ns(o):
                    continue
                if par.get('kind') == 'FunctionTemplateDecl':
                    if not any(x.get('kind') == 'TemplateArgument' for x in o.get('inner', ())):
                        continue      # the uninstantiated pattern
                    if (a.up(par) or {}).get('name') != 'PhQ':
                        continue
                elif not (par.get('kind') == 'NamespaceDecl' and par.get('name') == 'PhQ'):
                    continue
                if a.byid.get(o['id']) is not o:
                    continue
                try:
                    out.append(low.lower_func(o))
                except Unsupported as e:
                    self.skipped.append((o.get('name') + ' ' + o['type']['qualType'][:80], str(e)))
        self._free = out
        return [f for f in out if names is None or f.node.get('name') in names]

    def hash_ops(self):
        """{canonical record name: lowered std::hash<Q<T>>::operator()}."""
        a, low = self.ast, self.low
        out = {}
        for o in a.walk():
            if o.get('kind') == 'ClassTemplateSpecializationDecl' and o.get('name') == 'hash' and a.byid.get(o['id']) is o:
                targ = [c for c in o.get('inner', ()) if c.get('kind') == 'TemplateArgument']
                if not targ:
                    continue
                try:
                    t = low.ptype(targ[0]['type']['qualType'])
                except Unsupported:
                    continue
                if t[0] != 'rec' or t[1] not in low.records:
                    continue
                for c in o.get('inner', ()):
                    if c.get('kind') == 'CXXMethodDecl' and c.get('name') == 'operator()' and low.has_body(c):
                        try:
                            low.rec_of_decl.setdefault(c['id'], None)
                            out[t[1]] = (c, t)
                        except Unsupported:
                            pass
        return out

    def value_type(self, p):
        return p[1] if p[0] in ('ptr', 'ref') else p

    def is_quantity_type(self, t):
        t = self.value_type(t)
        return t[0] == 'rec' and self.low.records.get(t[1]) is not None and self.low.records[t[1]].template in self.names

    def loc(self, f):
        return '%s:%s' % (os.path.relpath(f.loc[0], astload.REPO), f.loc[1]) if f.loc and f.loc[0] else None
