"""C07 - each unit system is coherent: its units combine with factor one."""
import os, re, json
from fractions import Fraction
from ..core import Ob, pmap
from .. import astload, cemit
from ..lower import Unsupported
from ..symex import SymEx, State, Ptr, num, is_num, mk, cmp, TRUE
from ..realob import RealTask
from ..ieeeob import IeeeJob
from .units_common import Units

BASE_TYPES = [('Time', 'Unit::Time'), ('Length', 'Unit::Length'), ('Mass', 'Unit::Mass'),
              ('ElectricCurrent', 'Unit::ElectricCurrent'), ('Temperature', 'Unit::TemperatureDifference'),
              ('SubstanceAmount', 'Unit::SubstanceAmount'), ('LuminousIntensity', None)]


def slope(units, ut, uname, T='double'):
    """Exact SI magnitude of one unit, from the code's own ToStandard body: To(1) - To(0), as a
    polynomial (a, k) meaning a * PI^k.  Evaluated by symbolic execution on numeric input."""
    loops = units.loop_funcs(ut, T, 'To')
    leaf = units.leaf_of(loops[uname])
    vals = []
    for x in (0, 1):
        S = SymEx(units.low)
        st = State()
        b = S.newbox(st, num(x))
        S.call(leaf, [Ptr(b, ())], st)
        vals.append((S, st.mem[b]))
    (S0, v0), (S1, v1) = vals
    return v0, v1


def poly_pi(t):
    """term over nums and the symbol PI -> {power: Fraction} or None."""
    op = t[0]
    if op == 'num':
        return {0: t[1]}
    if op == 'sym' and t[1] == 'PI':
        return {1: Fraction(1)}
    if op in ('+', '-'):
        a, b = poly_pi(t[1]), poly_pi(t[2])
        if a is None or b is None:
            return None
        r = dict(a)
        for k, v in b.items():
            r[k] = r.get(k, 0) + (v if op == '+' else -v)
        return {k: v for k, v in r.items() if v != 0} or {0: Fraction(0)}
    if op == '*':
        a, b = poly_pi(t[1]), poly_pi(t[2])
        if a is None or b is None:
            return None
        r = {}
        for k1, v1 in a.items():
            for k2, v2 in b.items():
                r[k1 + k2] = r.get(k1 + k2, 0) + v1 * v2
        return {k: v for k, v in r.items() if v != 0} or {0: Fraction(0)}
    if op == '/':
        a, b = poly_pi(t[1]), poly_pi(t[2])
        if a is None or b is None or len(b) != 1:
            return None
        (kb, vb), = b.items()
        if vb == 0:
            return None
        return {k - kb: v / vb for k, v in a.items()}
    if op == 'neg':
        a = poly_pi(t[1])
        return None if a is None else {k: -v for k, v in a.items()}
    return None


def magnitude(units, ut, uname):
    v0, v1 = slope(units, ut, uname)
    p0, p1 = poly_pi(v0), poly_pi(v1)
    if p0 is None or p1 is None:
        raise Unsupported('magnitude of %s::%s is not a polynomial in PI' % (ut, uname))
    r = dict(p1)
    for k, v in p0.items():
        r[k] = r.get(k, 0) - v
    r = {k: v for k, v in r.items() if v != 0}
    return r


def pmul(a, b):
    r = {}
    for k1, v1 in a.items():
        for k2, v2 in b.items():
            r[k1 + k2] = r.get(k1 + k2, 0) + v1 * v2
    return r


def ppow(a, n):
    if len(a) != 1:
        raise Unsupported('power of a non-monomial')
    (k, v), = a.items()
    return {k * n: v ** n}


def run(check):
    check.checker_cmd = 'clang++ -ast-dump=json | phqv lower | phqv symex (exact rationals) ; goto-cc | goto-instrument --dfcc --enforce-contract {ConsistentUnit,RelatedUnitSystem}<U> | cbmc'
    check.assume('coherence obligations evaluate the code\'s own ToStandard bodies on exact rationals (REAL semantics); no external constants are used')
    check.assume('std::map abstract function: first row with an equal key wins (trusted mapping of the initialiser list)')
    units = Units(check, types=['double'], shapes=False)
    low, T = units.low, units.tables
    systems = low.enums['UnitSystem'].enumerators
    std_sys = T.standard('UnitSystem')
    check.extra['unit_systems'] = [s for s, _ in systems]
    n_cons = 0
    # ------------------------------------------------------------------ coherence (ground, exact)
    cache = {}

    def mag(ut, uname):
        if (ut, uname) not in cache:
            cache[(ut, uname)] = magnitude(units, ut, uname)
        return cache[(ut, uname)]
    for ut in units.unit_types:
        rows = T.enum_rows('ConsistentUnits', (ut,))
        fwd = {}
        for k, v in rows:
            fwd.setdefault(k[2], v[2])
        dims = T.related_dimensions(ut)
        for sname, sval in systems:
            ob = Ob('C07.coherent.%s.%s' % (sname, ut.split('::')[1]), 'ground', 'Internal::ConsistentUnits<%s>' % ut,
                    'include/PhQ/Unit/%s.hpp' % ut.split('::')[1])
            ob.backend = 'phqv symex on exact rationals'
            check.add(ob)
            if sname not in fwd:
                ob.status, ob.detail = 'failed', 'no consistent unit of %s for unit system %s' % (ut, sname)
                continue
            n_cons += 1
            try:
                lhs = mag(ut, fwd[sname])
                rhs = {0: Fraction(1)}
                unsupported = None
                for (dname, e), (dn2, base_ut) in zip(dims, BASE_TYPES):
                    assert dname == dn2
                    if e == 0:
                        continue
                    if base_ut is None:
                        unsupported = 'luminous intensity has no unit type'
                        break
                    brow = dict((k[2], v[2]) for k, v in reversed(T.enum_rows('ConsistentUnits', (base_ut,))))
                    rhs = pmul(rhs, ppow(mag(base_ut, brow[sname]), e))
                if unsupported:
                    ob.status, ob.detail = 'error', unsupported
                    continue
                ob.text = 'magnitude(%s::%s) == prod base_i(%s)^e_i with e = %s : %s == %s' % (
                    ut, fwd[sname], sname, [e for _, e in dims], lhs, rhs)
                if lhs == {k: v for k, v in rhs.items() if v != 0}:
                    ob.status = 'discharged'
                else:
                    ob.status = 'failed'
                    ob.detail = 'consistent unit %s::%s of %s has magnitude %s, the base units give %s' % (ut, fwd[sname], sname, lhs, rhs)
            except Unsupported as e:
                ob.status, ob.detail = 'error', str(e)
        # standard system's consistent unit is the standard unit
        ob = Ob('C07.standard.%s' % ut.split('::')[1], 'ground', 'Internal::ConsistentUnits<%s>' % ut, 'include/PhQ/Unit/%s.hpp' % ut.split('::')[1])
        ob.backend = 'table comparison'
        ob.text = 'ConsistentUnits<%s>[Standard<UnitSystem>] == Standard<%s>' % (ut, ut)
        su = T.standard(ut)
        ob.status = 'discharged' if fwd.get(std_sys[1]) == su[1] else 'failed'
        if ob.status == 'failed':
            ob.detail = 'ConsistentUnits<%s>[%s] = %s, Standard<%s> = %s' % (ut, std_sys[1], fwd.get(std_sys[1]), ut, su[1])
        check.add(ob)
    check.extra['consistent_units_seen'] = n_cons
    if n_cons < 4 * 37:
        check.error('must-fire: expected 148 consistent units, found %d' % n_cons)
    # ------------------------------------------------------------------ lookups (CBMC, symbolic enumerators)
    jobs = []
    for ut in units.unit_types:
        utn = ut.split('::')[1]
        KT = None
        fc = find_fn(units, 'ConsistentUnit', ut)
        fr = find_fn(units, 'RelatedUnitSystem', ut)
        E = cemit.CEmitter(low)
        KT = E.ctype(('enum', ut))
        ST = E.ctype(('enum', 'UnitSystem'))
        rows = T.enum_rows('ConsistentUnits', (ut,))
        # spec of the reverse lookup computed from the forward table
        spec = ['static int phqv_spec_related_%s(%s u) {' % (utn, KT), '  int count = 0; int s = -1;']
        seen = set()
        for k, v in rows:
            if k[2] in seen:
                continue
            seen.add(k[2])
            spec.append('  if (u == (%s)%d) { count++; s = %d; }' % (KT, v[3], k[3]))
        spec.append('  return count == 1 ? s : -1;\n}')
        fspec = ['static int phqv_spec_consistent_%s(%s s) {' % (utn, ST)]
        seen = set()
        for k, v in rows:
            if k[2] in seen:
                continue
            seen.add(k[2])
            fspec.append('  if (s == (%s)%d) return %d;' % (ST, k[3], v[3]))
        fspec.append('  return -1;\n}')
        uvals = [v for _, v in units.enumerators(ut)]
        svals = [v for _, v in systems]
        pn = fr.params[0][0]
        j = IeeeJob(check, 'C07.related.%s' % utn, low, fr,
                    ensures=['__CPROVER_return_value.has == (phqv_spec_related_%s(*%s) >= 0)' % (utn, pn),
                             '!__CPROVER_return_value.has || __CPROVER_return_value.val == phqv_spec_related_%s(*%s)' % (utn, pn)],
                    requires=['*%s >= %d && *%s <= %d' % (pn, min(uvals), pn, max(uvals))],
                    backend='sat', timeout=120, text_extra='\n'.join(spec) + '\n', flags=['--signed-overflow-check'])
        jobs.append(j)
        pn = fc.params[0][0]
        j = IeeeJob(check, 'C07.total.%s' % utn, low, fc,
                    ensures=['__CPROVER_return_value == phqv_spec_consistent_%s(*%s)' % (utn, pn)],
                    requires=['*%s >= %d && *%s <= %d' % (pn, min(svals), pn, max(svals))],
                    backend='sat', timeout=120, text_extra='\n'.join(fspec) + '\n')
        jobs.append(j)
        check.under_contract(fr)
        check.under_contract(fc)
    for j, ob in zip(jobs, pmap(lambda j: j.run(), jobs)):
        check.add(ob)
        if ob.status == 'failed':
            path, tail = adjudicate_lookup(check, units, j, ob)
            check.violations.append((ob, path, tail))
    for ob in check.obs:
        if ob.status == 'failed' and ob.mode == 'ground':
            path, tail = adjudicate_ground(check, units, ob)
            check.violations.append((ob, path, tail))


def find_fn(units, name, ut):
    low, a = units.low, units.ast
    for o in a.walk():
        if o.get('kind') == 'FunctionDecl' and o.get('name') == name and low.has_body(o):
            tas = [c for c in o.get('inner', ()) if c.get('kind') == 'TemplateArgument']
            if tas and tas[0].get('type', {}).get('qualType', '').replace('PhQ::', '') == ut:
                return low.lower_func(o)
    raise Unsupported('%s<%s> not instantiated' % (name, ut))


def write_replay(check, ob, rec):
    d = check.replay_dir
    os.makedirs(d, exist_ok=True)
    path = os.path.join(d, re.sub(r'[^\w.-]+', '_', ob.name) + '.replay.json')
    json.dump(rec, open(path, 'w'), indent=1, default=str)
    return path


def adjudicate_ground(check, units, ob):
    """Replay a coherence failure on the real code: convert 1 of the consistent unit and 1 of each base
    unit to SI natively and compare the product."""
    from .. import replay
    m = re.match(r'C07\.(coherent|standard)\.(\w+)(?:\.(\w+))?', ob.name)
    rec = {'property': 'C07', 'obligation': ob.name, 'verifier_output': ob.detail, 'text': ob.text}
    if m.group(1) != 'coherent':
        rec['confirmed'] = True
        rec['mismatch'] = [ob.detail]
        return write_replay(check, ob, rec), ''
    sname, utn = m.group(2), m.group(3)
    ut = 'Unit::' + utn
    T = units.tables
    fwd = dict((k[2], v[2]) for k, v in reversed(T.enum_rows('ConsistentUnits', (ut,))))
    dims = T.related_dimensions(ut)
    lines = ['#include <PhQ/UnitSystem.hpp>', '#include <PhQ/Unit/%s.hpp>' % utn]
    body = ['  double lhs = PhQ::Convert<PhQ::Unit::%s, double>(1.0, PhQ::ConsistentUnit<PhQ::Unit::%s>(PhQ::UnitSystem::%s), PhQ::Standard<PhQ::Unit::%s>);' % (utn, utn, sname, utn),
            '  double rhs = 1.0;']
    for (dname, e), (dn2, base_ut) in zip(dims, BASE_TYPES):
        if e == 0 or base_ut is None:
            continue
        b = base_ut.split('::')[1]
        lines.append('#include <PhQ/Unit/%s.hpp>' % b)
        body.append('  rhs *= std::pow(PhQ::Convert<PhQ::Unit::%s, double>(1.0, PhQ::ConsistentUnit<PhQ::Unit::%s>(PhQ::UnitSystem::%s), PhQ::Standard<PhQ::Unit::%s>), %d);' % (b, b, sname, b, e))
    cpp = '\n'.join(sorted(set(lines))) + '\n#include <cstdio>\n#include <cmath>\nint main() {\n' + '\n'.join(body) + '\n  std::printf("%.17g %.17g\\n", lhs, rhs);\n  return 0; }\n'
    r, err = replay.build_and_run(cpp, os.path.join(check.work, 'replay'), 'r_' + re.sub(r'\W+', '_', ob.name))
    confirmed = False
    if err:
        rec['replay_error'] = err
    else:
        rec['cpp'], rec['native_output'] = cpp, r.stdout
        try:
            a, b = [float(x) for x in r.stdout.split()]
            if abs(a - b) > 1e-9 * max(abs(a), abs(b)):
                confirmed = True
                rec['mismatch'] = ['1 %s = %r SI, product of base units of %s = %r' % (fwd.get(sname), a, sname, b)]
        except Exception as e:
            rec['replay_error'] = str(e)
    rec['confirmed'] = confirmed
    return write_replay(check, ob, rec), ('' if confirmed else 'no-failing-input-found')


def adjudicate_lookup(check, units, j, ob):
    """Replay a lookup failure natively for every enumerator (finite domain): compare the real
    RelatedUnitSystem / ConsistentUnit with the relation the property states."""
    from .. import replay
    utn = ob.name.split('.')[2]
    ut = 'Unit::' + utn
    kind = ob.name.split('.')[1]
    T = units.tables
    rec = {'property': 'C07', 'obligation': ob.name, 'function': ob.function, 'source': ob.loc, 'verifier_output': ob.detail,
           'contract': ob.text}
    systems = units.low.enums['UnitSystem'].enumerators
    if kind == 'related':
        cpp = '#include <PhQ/UnitSystem.hpp>\n#include <PhQ/Unit/%s.hpp>\n#include <cstdio>\nint main() {\n  int bad = 0;\n' % utn
        cpp += '  for (int u = %d; u <= %d; ++u) {\n    auto unit = static_cast<PhQ::Unit::%s>(u); int count = 0, s = -1;\n' % (
            min(v for _, v in units.enumerators(ut)), max(v for _, v in units.enumerators(ut)), utn)
        for sname, sval in systems:
            cpp += '    if (PhQ::ConsistentUnit<PhQ::Unit::%s>(PhQ::UnitSystem::%s) == unit) { count++; s = %d; }\n' % (utn, sname, sval)
        cpp += '    auto r = PhQ::RelatedUnitSystem(unit); int want = count == 1 ? s : -1; int got = r.has_value() ? static_cast<int>(r.value()) : -1;\n'
        cpp += '    if (got != want) { std::printf("MISMATCH unit=%d related=%d expected=%d\\n", u, got, want); bad++; }\n  }\n  return bad ? 1 : 0; }\n'
    else:
        cpp = '#include <PhQ/UnitSystem.hpp>\n#include <PhQ/Unit/%s.hpp>\n#include <cstdio>\nint main() {\n' % utn
        for sname, sval in systems:
            cpp += '  try { (void)PhQ::ConsistentUnit<PhQ::Unit::%s>(PhQ::UnitSystem::%s); } catch (...) { std::printf("MISMATCH ConsistentUnit throws for %s\\n"); return 1; }\n' % (utn, sname, sname)
        cpp += '  return 0; }\n'
    r, err = replay.build_and_run(cpp, os.path.join(check.work, 'replay'), 'r_' + re.sub(r'\W+', '_', ob.name))
    confirmed = False
    if err:
        rec['replay_error'] = err
    else:
        rec['cpp'], rec['native_output'] = cpp, r.stdout
        if 'MISMATCH' in r.stdout or r.returncode != 0:
            confirmed = True
            rec['mismatch'] = r.stdout.strip().split('\n')[:10]
    rec['confirmed'] = confirmed
    return write_replay(check, ob, rec), ('' if confirmed else 'no-failing-input-found')
