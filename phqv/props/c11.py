"""C11 - the angle between two vectors is always a real number in [0, pi]."""
import os, re, math
from fractions import Fraction
from ..core import Ob, pmap
from .. import astload, cemit, replay
from ..lower import Unsupported, tstr
from ..ieeeob import IeeeJob, HarnessJob, PureAbstraction, param_leaves, cleaves, isnan_fn, run_jobs, write_replay
from ..realob import SymCall, RealTask, leaves, conj
from ..symex import mk, num, cmp, land, lor, lnot, TRUE, FALSE, ite, neg
from .quant_common import Quant

RANGE = {'float': ('0x1p-60f', '0x1p60f', '0x1p-61f', '0x1p61f', '0x1p122f'),
         'double': ('0x1p-500', '0x1p500', '0x1p-501', '0x1p501', '0x1p1002'),
         'long double': ('0x1p-500', '0x1p500', '0x1p-501', '0x1p501', '0x1p1002')}    # unused: no bit-precise obligation for long double
VECS = ('Vector', 'PlanarVector')
DIRS = ('Direction', 'PlanarDirection')


def tmpl(low, t):
    t = t[1] if t[0] == 'ptr' else t
    return low.record(t[1]).template if t[0] == 'rec' else None


def vec_requires(T, lv, kind):
    small, big = RANGE[T][0], RANGE[T][1]
    if kind in DIRS:
        # representation invariant of directions (C10): components of a unit vector (or the zero vector excluded here)
        one = '1.0000001f' if T == 'float' else '1.0000000000001'
        half = '0.5f' if T == 'float' else '0.5'
        return ['%s >= -%s && %s <= %s' % (x, one, x, one) for x in lv] + \
               ['(' + ' || '.join('%s >= %s || %s <= -%s' % (x, half, x, half) for x in lv) + ')']
    return ['%s >= -%s && %s <= %s' % (x, big, x, big) for x in lv] + \
           ['(' + ' || '.join('%s >= %s || %s <= -%s' % (x, small, x, small) for x in lv) + ')']


def run(check):
    tier = check.tier
    ieee_types = ['float', 'double']
    types = ['float', 'double', 'long double']     # REAL obligations for double and long double; bit-precise ones for ieee_types
    check.checker_cmd = 'clang++ -ast-dump=json | phqv lower | goto-cc | goto-instrument --dfcc --enforce-contract Angle::Angle(a,b) --replace-call-with-contract {Magnitude,Dot} | cbmc ; REAL: phqv symex -> z3 nlsat'
    check.assume('libm acos contract (assumed): x in [-1,1] and not NaN => 0 <= acos(x) <= pi (rounded to the type) and not NaN; outside [-1,1] or NaN => NaN.  The domain condition is the proof obligation')
    check.assume('input range as the property states: finite components, squared length neither overflows nor underflows (float: 2^-60 <= max|c|, |c| <= 2^60; double: 2^-500, 2^500); directions satisfy their representation invariant (C10)')
    check.notes.append('agreement with atan2(|a x b|, a.b) to 1e-7 rad is arc-cosine conditioning of the real functions; not machine-checked (the REAL obligations establish the argument is a.b/(|a||b|))')
    jobs = []
    nk = 0
    loaded = dict(zip(types, pmap(lambda T_: Quant(check, types=(T_,), other_types=(), conv=False, hash_=False), types)))
    for T in types:
        jobs_mark = len(jobs)
        Q = loaded[T]
        low = Q.low
        tag = T.replace(' ', '_')
        small, big, lo_m, hi_m, big2 = RANGE[T]
        angle = Q.canon('Angle', T)
        # ---- callee contracts: Magnitude and Dot of the vector classes
        contracts, decls, replace = {}, '', []
        mags, dots = {}, {}
        for cls in VECS:
            canon = Q.canon(cls, T)
            for f in Q.methods(canon):
                nm = f.node.get('name')
                if nm == 'Magnitude' and len(f.params) == 1:
                    sl = cleaves(low, 'self', ('rec', canon), arrow=True)
                    req = vec_requires(T, sl, cls)
                    ens = ['__CPROVER_return_value >= %s && __CPROVER_return_value <= %s' % (lo_m, hi_m)]
                    mags[canon] = f
                    contracts[f.cname] = ['__CPROVER_requires(%s)' % r for r in req] + ['__CPROVER_assigns()'] + ['__CPROVER_ensures(%s)' % e for e in ens]
                    jobs.append(IeeeJob(check, 'C11.callee.%s.Magnitude.%s' % (cls, tag), low, f, ensures=ens, requires=req,
                                        backend=['sat', 'cvc5'], timeout=600))
                    check.under_contract(f)
                elif nm == 'Dot' and len(f.params) == 2:
                    ot = f.params[1][1]
                    ok = tmpl(low, ot)
                    if ok not in VECS + DIRS:
                        continue
                    sl = cleaves(low, 'self', ('rec', canon), arrow=True)
                    ol = cleaves(low, f.params[1][0], ot[1], arrow=True)
                    req = ['%s >= -%s && %s <= %s' % (x, big, x, big) for x in sl + ol]
                    ens = ['__CPROVER_return_value >= -%s && __CPROVER_return_value <= %s' % (big2, big2)]
                    dots[(canon, ok)] = f
                    contracts[f.cname] = ['__CPROVER_requires(%s)' % r for r in req] + ['__CPROVER_assigns()'] + ['__CPROVER_ensures(%s)' % e for e in ens]
                    jobs.append(IeeeJob(check, 'C11.callee.%s.Dot.%s.%s' % (cls, ok, tag), low, f, ensures=ens, requires=req,
                                        backend=['sat', 'cvc5'], timeout=600))
                    check.under_contract(f)
        for cls in DIRS:
            canon = Q.canon(cls, T)
            for f in Q.methods(canon):
                if f.node.get('name') == 'Dot' and len(f.params) == 2 and tmpl(low, f.params[1][1]) in VECS + DIRS:
                    sl = cleaves(low, 'self', ('rec', canon), arrow=True)
                    ol = cleaves(low, f.params[1][0], f.params[1][1][1], arrow=True)
                    req = ['%s >= -%s && %s <= %s' % (x, big, x, big) for x in sl + ol]
                    ens = ['__CPROVER_return_value >= -%s && __CPROVER_return_value <= %s' % (big2, big2)]
                    dots[(canon, tmpl(low, f.params[1][1]))] = f
                    contracts[f.cname] = ['__CPROVER_requires(%s)' % r for r in req] + ['__CPROVER_assigns()'] + ['__CPROVER_ensures(%s)' % e for e in ens]
                    jobs.append(IeeeJob(check, 'C11.callee.%s.Dot.%s.%s' % (cls, tmpl(low, f.params[1][1]), tag), low, f, ensures=ens, requires=req,
                                        backend=['sat', 'cvc5'], timeout=600))
                    check.under_contract(f)
        # ---- the angle kernels and the quantity-level constructors
        kernels = {}
        quantity_ctors = []
        for f in Q.methods(angle):
            if f.kind != 'ctor' or len(f.params) != 3:
                continue
            k1, k2 = tmpl(low, f.params[1][1]), tmpl(low, f.params[2][1])
            if k1 in VECS + DIRS and k2 in VECS + DIRS:
                kernels[(k1, k2)] = f
            elif k1 is not None and k1 == k2 and k1 in Q.quantities:
                quantity_ctors.append(f)
        if len(kernels) != 8:
            check.error('must-fire: expected 8 angle kernels for %s, found %d: %s' % (T, len(kernels), sorted(kernels)))
        piup = {'float': '0x1.921fb6p+1f', 'double': '0x1.921fb54442d18p+1', 'long double': '0x1.921fb54442d18p+1'}[T]
        for (k1, k2), f in sorted(kernels.items()):
            nk += 1
            pl = param_leaves(low, f)
            a, b = pl[f.params[1][0]], pl[f.params[2][0]]
            req = vec_requires(T, a, k1) + vec_requires(T, b, k2)
            val = cleaves(low, 'self', ('rec', angle), arrow=True)[0]
            ens = ['%s >= 0 && %s <= %s' % (val, val, piup)]
            callees = [low.funcs[c] for c in closure_ids(low, f)]
            rep = [g.cname for g in callees if g.cname in contracts]
            j = IeeeJob(check, 'C11.domain.%s.%s.%s' % (k1, k2, tag), low, f, ensures=ens, requires=req, assigns='__CPROVER_assigns(*self)',
                        replace=rep, replace_contracts={c: contracts[c] for c in rep}, backend=['sat', 'cvc5'], timeout=600,
                        predicate=nan_pred)
            j.gen_inputs = parallel_inputs(low, f, T)
            jobs.append(j)
            check.under_contract(f)
        # quantity-level constructors delegate to the kernel of their value type on their own stored vectors
        for f in quantity_ctors:
            k = None
            vt = None
            qrec = low.record(f.params[1][1][1][1])
            vt = dict(low.record(qrec.bases[0]).fields).get('value')
            kt = low.record(vt[1]).template
            kern = kernels.get((kt, kt))
            if kern is None:
                check.error('C11: no kernel for %s' % f.qualname)
                continue
            pa = PureAbstraction(low, kern)
            pl = param_leaves(low, f)
            a, b = pl[f.params[1][0]], pl[f.params[2][0]]
            val = cleaves(low, 'self', ('rec', angle), arrow=True)[0]
            isn = isnan_fn(T)
            ens = ['%s == %s || %s == %s || %s(%s)' % (val, pa.app(0, a + b), val, pa.app(0, b + a), isn, val)]
            jobs.append(IeeeJob(check, 'C11.delegates.%s.%s' % (qrec.template, tag), low, f, ensures=ens, assigns='__CPROVER_assigns(*self)',
                                replace=[kern.cname], replace_contracts={kern.cname: pa.clauses()}, text_extra=pa.decls(), backend=['sat'], timeout=120))
            check.under_contract(f)
        # symmetry, decomposed: (i) the dot product commutes bit for bit; (ii) over the reals the acos argument of
        # Angle(a, b) equals that of Angle(b, a) (real_obligations)
        for (canon, ok), df in sorted(dots.items()):
            other = dots.get((Q.canon(ok, T), low.record(canon).template))
            if other is None:
                continue
            if (low.record(canon).template, ok) > (ok, low.record(canon).template):
                continue
            E = cemit.CEmitter(low)
            ta, tb = ('rec', canon), ('rec', Q.canon(ok, T))
            isn = isnan_fn(T)
            h = 'void harness(void) {\n  %s a; %s b;\n  %s r1 = %s(&a, &b); %s r2 = %s(&b, &a);\n' % (E.ctype(ta), E.ctype(tb), T, df.cname, T, other.cname)
            h += '  __CPROVER_assert(r1 == r2 || (%s(r1) && %s(r2)), "dot product is symmetric bit for bit");\n}\n' % (isn, isn)
            jobs.append(HarnessJob(check, 'C11.symmetric.dot.%s.%s.%s' % (low.record(canon).template, ok, tag), low, [df, other], h, 1,
                                   function=df.qualname, loc=Q.loc(df), backend=['cvc5', 'sat'], timeout=300))
        check.extra['quantity_level_constructors_' + tag] = len(quantity_ctors)
        if T in ('double', 'long double'):
            real_obligations(check, Q, kernels, tag)
        if T not in ieee_types:
            del jobs[jobs_mark:]
    check.extra['kernels_seen'] = nk
    check.log('%d IEEE obligations' % len(jobs))
    run_jobs(check, jobs)


def closure_ids(low, f):
    out, stack = set(), [f]
    while stack:
        g = stack.pop()
        for c in g.callees:
            if c not in out:
                out.add(c)
                stack.append(low.funcs[c])
    return out


def nan_pred(w, out, run):
    got = out.get('RET', [])
    if not got:
        return []
    v = float(got[0])
    if v != v:
        return ['the angle is NaN']
    if v < 0 or v > math.pi + 1e-6:
        return ['the angle %r is outside [0, pi]' % v]
    return []


def parallel_inputs(low, f, T):
    """Refutation-search generator: (anti)parallel pairs, the case the property singles out."""
    def gen(rnd):
        n1 = len(replay.leaf_types(low, f.params[1][1][1]))
        n2 = len(replay.leaf_types(low, f.params[2][1][1]))
        base = [Fraction(rnd.randint(-1000, 1000), rnd.randint(1, 97)) for _ in range(3)]
        if all(b == 0 for b in base):
            base[0] = Fraction(1)
        s = Fraction(rnd.randint(1, 50), rnd.randint(1, 7)) * rnd.choice([1, -1])
        k1, k2 = low.record(f.params[1][1][1][1]).template, low.record(f.params[2][1][1][1]).template

        def mk(v, kind, n):
            v = v[:n]
            if kind in DIRS:
                nrm = math.sqrt(sum(float(x) ** 2 for x in v)) or 1.0
                return [Fraction(float(x) / nrm) for x in v]
            return v
        return {f.params[1][0]: mk(base, k1, n1), f.params[2][0]: mk([s * x for x in base], k2, n2)}
    return gen


def real_obligations(check, Q, kernels, tag):
    """REAL: the value passed to acos is a.b/(|a||b|) (so clamping is the identity by Cauchy-Schwarz) and is
    invariant under positive rescaling of either argument."""
    low = Q.low
    tasks = []
    for (k1, k2), f in sorted(kernels.items()):
        try:
            sc = SymCall(low, f)
        except Unsupported as e:
            check.error('C11.formula.%s.%s: %s' % (k1, k2, e))
            continue
        S = sc.S
        a, b = leaves(sc.pre[f.params[1][0]]), leaves(sc.pre[f.params[2][0]])
        acos_args = [t for t in find_apps(leaves(sc.post['self'])[0], 'acos')]
        if len(acos_args) != 1:
            check.error('C11.formula.%s.%s: expected one acos application, found %d' % (k1, k2, len(acos_args)))
            continue
        arg = acos_args[0]
        dot = num(0)
        for x, y in zip(a, b):
            dot = mk('+', dot, mk('*', x, y))
        na, nb = S.sym('norm_a'), S.sym('norm_b')
        sa, sb = num(0), num(0)
        for x in a:
            sa = mk('+', sa, mk('*', x, x))
        for y in b:
            sb = mk('+', sb, mk('*', y, y))
        facts = [cmp('>', na, num(0)), cmp('==', mk('*', na, na), sa), cmp('>', nb, num(0)), cmp('==', mk('*', nb, nb), sb)]
        # a direction argument satisfies its representation invariant (C10): unit length
        if k1 in DIRS:
            facts.append(cmp('==', na, num(1)))
        if k2 in DIRS:
            facts.append(cmp('==', nb, num(1)))
        goal = cmp('==', mk('*', arg, mk('*', na, nb)), dot)
        t = RealTask(check, 'C11.formula.%s.%s.real.%s' % (k1, k2, tag), S, goal, assumes=facts, function=f.qualname, loc=Q.loc(f), timeout=120)
        t.ob.text = 'acos argument * |a| * |b| == a.b  (|a|,|b| > 0 defined by n*n == a.a; a direction has |d| == 1)'
        tasks.append(t)
        goal2 = land(cmp('<=', num(-1), arg), cmp('<=', arg, num(1)))
        t2 = RealTask(check, 'C11.range.%s.%s.real.%s' % (k1, k2, tag), S, goal2, assumes=facts, function=f.qualname, loc=Q.loc(f), timeout=120)
        t2.ob.text = 'the acos argument lies in [-1, 1] over the reals (Cauchy-Schwarz)'
        tasks.append(t2)
    # the value handed to acos is the computed cosine clamped to [-1, 1]: modular REAL obligation with Dot and
    # Magnitude replaced by unconstrained results (so the clamping branches, unreachable over the reals by
    # Cauchy-Schwarz but reachable in floating point, are exercised)
    for (k1, k2), f in sorted(kernels.items()):
        try:
            clamp_task = clamp_obligation(check, Q, f, k1, k2, tag)
            if clamp_task is not None:
                tasks.append(clamp_task)
        except Unsupported as e:
            check.error('C11.clamp.%s.%s: %s' % (k1, k2, e))
    # symmetry over the reals
    args = {}
    for (k1, k2), f in sorted(kernels.items()):
        try:
            sc = SymCall(low, f, names={f.params[1][0]: 'p', f.params[2][0]: 'q'})
            aa = find_apps(leaves(sc.post['self'])[0], 'acos')
            if len(aa) == 1:
                args[(k1, k2)] = (sc, aa[0], leaves(sc.pre[f.params[1][0]]), leaves(sc.pre[f.params[2][0]]))
        except Unsupported as e:
            check.error('C11.symmetric.%s.%s: %s' % (k1, k2, e))
    for (k1, k2), (sc, arg, pa, pb) in sorted(args.items()):
        if (k2, k1) not in args or (k1, k2) > (k2, k1):
            continue
        f2 = kernels[(k2, k1)]
        # evaluate the mirrored kernel on the swapped symbolic arguments
        sc2 = SymCall(low, f2, symex=sc.S, args={f2.params[1][0]: sc.pre[kernels[(k1, k2)].params[2][0]], f2.params[2][0]: sc.pre[kernels[(k1, k2)].params[1][0]]})
        aa = find_apps(leaves(sc2.post['self'])[0], 'acos')
        if len(aa) != 1:
            continue
        t = RealTask(check, 'C11.symmetric.%s.%s.real.%s' % (k1, k2, tag), sc.S, cmp('==', arg, aa[0]), function=kernels[(k1, k2)].qualname,
                     loc=Q.loc(kernels[(k1, k2)]), timeout=120)
        t.ob.text = 'acos argument of Angle(a, b) == acos argument of Angle(b, a), for all real a, b'
        tasks.append(t)
    for ob in pmap(lambda t: t.run(), tasks):
        if ob.status == 'undecided':
            check.notes.append('%s: z3 did not decide (%s); reported as not machine-checked' % (ob.name, ob.detail[:80]))
            check.assume('%s not machine-checked (solver undecided)' % ob.name)
            continue
        check.add(ob)
        if ob.status == 'failed':
            rec = {'property': 'C11', 'obligation': ob.name, 'function': ob.function, 'source': ob.loc, 'verifier_output': ob.detail,
                   'solver_model': {k: str(v) for k, v in (ob.cex or {}).items()}, 'confirmed': False}
            m = re.match(r'C11\.clamp\.(\w+)\.(\w+)\.real', ob.name)
            if m and (m.group(1), m.group(2)) in kernels:
                search_parallel(check, Q, kernels[(m.group(1), m.group(2))], rec)
            m = re.match(r'C11\.(formula|range|symmetric)\.(\w+)\.(\w+)\.real', ob.name)
            if m and (m.group(2), m.group(3)) in kernels:
                replay_angle(check, Q, kernels, (m.group(2), m.group(3)), rec, ob)
            check.violations.append((ob, write_replay(check, ob, rec), '' if rec['confirmed'] else 'no-failing-input-found'))


def replay_angle(check, Q, kernels, key, rec, ob):
    """Native: the angle of generic (non-orthogonal, non-unit) arguments against atan2(|a x b|, a.b), and against the mirrored kernel."""
    import math
    low = Q.low
    k1, k2 = key
    T = low.record(kernels[key].record).targs[-1]
    mkarg = {'Vector': 'PhQ::Vector<%s>(%s)', 'PlanarVector': 'PhQ::PlanarVector<%s>(%s)', 'Direction': 'PhQ::Direction<%s>(%s)', 'PlanarDirection': 'PhQ::PlanarDirection<%s>(%s)'}
    samples = [([2.0, -3.0, 6.0], [1.0, 4.0, -2.0]), ([3.0, 3.0, 0.5], [1.0, 0.25, 2.0]), ([0.5, 2.0, -1.0], [-4.0, 1.0, 3.0])]
    body = ''
    for a, b in samples:
        na = 3 if 'Planar' not in k1 else 2
        nb = 3 if 'Planar' not in k2 else 2
        a3, b3 = (a[:na] + [0.0])[:3], (b[:nb] + [0.0])[:3]
        cr = [a3[1] * b3[2] - a3[2] * b3[1], a3[2] * b3[0] - a3[0] * b3[2], a3[0] * b3[1] - a3[1] * b3[0]]
        want = math.atan2(math.sqrt(sum(x * x for x in cr)), sum(x * y for x, y in zip(a3, b3)))
        A = mkarg[k1] % (T, ', '.join(repr(x) for x in a[:na]))
        B = mkarg[k2] % (T, ', '.join(repr(x) for x in b[:nb]))
        body += ('  { const double got = static_cast<double>(PhQ::Angle<%s>(%s, %s).Value()); const double mirrored = static_cast<double>(PhQ::Angle<%s>(%s, %s).Value());\n'
                 '    if (!(std::fabs(got - %r) <= 1e-5)) { std::printf("MISMATCH Angle(%s, %s) = %%.9g, atan2(|a x b|, a.b) = %%.9g\\n", got, %r); bad++; }\n'
                 '    if (!(std::fabs(got - mirrored) <= 1e-5)) { std::printf("MISMATCH Angle(a, b) = %%.9g but Angle(b, a) = %%.9g for a = %s, b = %s\\n", got, mirrored); bad++; } }\n') % (
                     T, A, B, T, B, A, want, a[:na], b[:nb], want, a[:na], b[:nb])
    cpp = '#include <PhQ/Angle.hpp>\n#include <PhQ/Vector.hpp>\n#include <PhQ/PlanarVector.hpp>\n#include <PhQ/Direction.hpp>\n#include <PhQ/PlanarDirection.hpp>\n#include <cstdio>\n#include <cmath>\nint main() {\n  int bad = 0;\n%s  return bad ? 1 : 0;\n}\n' % body
    r, err = replay.build_and_run(cpp, os.path.join(check.work, 'replay'), 'r_' + re.sub(r'\W+', '_', ob.name))
    if err:
        rec['replay_error'] = err[:600]
    else:
        rec['cpp'], rec['native_output'] = cpp, r.stdout[:1500]
        if 'MISMATCH' in r.stdout:
            rec['confirmed'], rec['mismatch'] = True, r.stdout.strip().split('\n')[:4]
            rec['inputs'] = {'samples': samples}


def find_apps(t, fname):
    out = []
    seen = set()
    stack = [t]
    while stack:
        x = stack.pop()
        if id(x) in seen or not isinstance(x, tuple):
            continue
        seen.add(id(x))
        if x[0] == 'app' and x[1] == fname:
            if x[2][0][0] != 'num' and not any(x[2][0] is y for y in out):
                out.append(x[2][0])      # the clamp branches acos(1), acos(-1) have constant arguments
            continue
        for c in x[1:]:
            if isinstance(c, tuple):
                stack.append(c)
    return out


def clamp_obligation(check, Q, f, k1, k2, tag):
    from ..symex import SymEx
    low = Q.low
    state = {'dots': [], 'mags': []}

    def dot_summary(S, g, args, st):
        d = S.fresh('dot')
        state['dots'].append(d)
        return d

    def mag_summary(S, g, args, st):
        key = repr(args[0])
        for k, m in state['mags']:
            if k == key:
                return m
        m = S.fresh('mag')
        S.assumes.append(cmp('<', num(0), m))
        state['mags'].append((key, m))
        return m
    summaries = {}
    for g in low.funcs.values():
        nm = g.node.get('name')
        if g.kind == 'method' and g.record and low.records[g.record].template in VECS + DIRS:
            if nm == 'Dot' and len(g.params) == 2:
                summaries[g.cname] = dot_summary
            elif nm == 'Magnitude' and len(g.params) == 1:
                summaries[g.cname] = mag_summary
    S = SymEx(low, summaries=summaries)
    sc = SymCall(low, f, symex=S)
    val = leaves(sc.post['self'])[0]
    if len(state['dots']) != 1:
        raise Unsupported('expected exactly one dot product in the kernel, found %d' % len(state['dots']))
    q = state['dots'][0]
    for _, m in state['mags']:
        q = mk('/', q, m)
    cl = ite(cmp('<', q, num(-1)), num(-1), ite(cmp('<', num(1), q), num(1), q))
    cases = []

    def walk(t, cond):
        if t[0] == 'ite':
            walk(t[2], land(cond, t[1]))
            walk(t[3], land(cond, lnot(t[1])))
        elif t[0] == 'app' and t[1] == 'acos':
            cases.append((cond, t[2][0]))
        else:
            raise Unsupported('the stored angle is not an arc cosine on every path (%s)' % (t[0],))
    walk(val, TRUE)
    goal = TRUE
    for cond, arg in cases:
        goal = land(goal, lor(lnot(cond), cmp('==', arg, cl)))
    t = RealTask(check, 'C11.clamp.%s.%s.real.%s' % (k1, k2, tag), S, goal, function=f.qualname, loc=Q.loc(f), timeout=120)
    t.ob.text = 'for every computed dot d and magnitudes m_i > 0: on every path the value passed to acos == clamp(d / prod m_i, -1, 1)  (%d paths; so the result is acos(-1) = pi when rounding pushes the cosine below -1 and acos(1) = 0 above 1)' % len(cases)
    return t


def search_parallel(check, Q, f, rec):
    """Seeded native search over exactly (anti)parallel pairs: the angle must be (nearly) 0 resp. pi."""
    import random
    from ..ieeeob import default_includes
    low = Q.low
    T = low.record(f.record).targs[0]
    rnd = random.Random(check.seed * 31 + 7)
    gen = parallel_inputs(low, f, T)
    nc = replay.NativeCall(low, f)
    k1, k2 = [low.record(p[1][1][1]).template for p in f.params[1:]]
    for i in range(40):
        w = gen(rnd)
        a, b = w[f.params[1][0]], w[f.params[2][0]]
        anti = (float(a[0]) * float(b[0]) < 0) or (float(a[0]) == 0 and float(a[1]) * float(b[1]) < 0)
        try:
            cpp = nc.program(w, includes=default_includes(low, f))
        except Unsupported as e:
            rec['replay_error'] = str(e)
            return
        r, err = replay.build_and_run(cpp, os.path.join(check.work, 'replay'), 'c%d_%s' % (i, re.sub(r'\W+', '_', rec['obligation'])[:100]))
        if err:
            rec['replay_error'] = err
            return
        out = replay.parse_out(r.stdout)
        v = float(out.get('RET', [float('nan')])[0])
        want = math.pi if anti else 0.0
        if not (abs(v - want) < 1e-2):
            rec.update({'confirmed': True, 'inputs': {k: [str(x) for x in vv] for k, vv in w.items()}, 'input_kind': 'seeded %sparallel pair #%d' % ('anti' if anti else '', i),
                        'native_output': r.stdout, 'cpp': cpp, 'mismatch': ['the angle between %sparallel arguments is %r (expected about %r)' % ('anti' if anti else '', v, want)]})
            return
