"""C08 - enumeration tables are total, unambiguous and parse to the unit meant."""
import os, re, json
from ..core import Ob, pmap
from .. import astload, cemit, replay
from ..lower import Unsupported
from ..ieeeob import IeeeJob
from .units_common import Units, UA
from .c07 import write_replay
from spec import unit_spellings as US

SEP_RE = re.compile(r'[·*⋅\-, ]+')


def find_inst(units, name, enumname):
    low, a = units.low, units.ast
    for o in a.walk():
        if o.get('kind') == 'FunctionDecl' and o.get('name') == name and low.has_body(o):
            tas = [c for c in o.get('inner', ()) if c.get('kind') == 'TemplateArgument']
            if tas and tas[0].get('type', {}).get('qualType', '').replace('PhQ::', '') == enumname:
                return low.lower_func(o)
    raise Unsupported('%s<%s> not instantiated' % (name, enumname))


def run(check):
    check.checker_cmd = 'clang++ -ast-dump=json | phqv tables/lower ; goto-cc | goto-instrument --dfcc --enforce-contract {Abbreviation,ParseEnumeration}<E> | cbmc ; spelling rows vs spec/unit_spellings.py (exact rationals)'
    check.assume('std::map / std::unordered_map abstract function: lookup returns the first initialiser row with an equal key (byte-wise string equality for string_view keys; strings are interned, equality of interned ids == equality of strings)')
    check.assume('spelling oracle spec/unit_spellings.py + spec/unit_atoms.py: hand-written from SI/NIST definitions; context-dependent atoms (lb, C, \', ") are resolved only by the unit type\'s declared dimension set')
    units = Units(check, types=['double'], shapes=False, model_type=True)
    low, T = units.low, units.tables
    enums = list(units.unit_types) + ['UnitSystem', 'ConstitutiveModel::Type']
    for e in enums:
        if e not in low.enums:
            check.error('must-fire: enum %s not found' % e)
    check.extra['enum_types_seen'] = len(enums)
    nrows = 0
    jobs = []
    for en in enums:
        if en not in low.enums:
            continue
        short = en.replace('Unit::', '').replace('::', '_')
        vals = [v for _, v in low.enums[en].enumerators]
        names = [n for n, _ in low.enums[en].enumerators]
        loc = 'include/PhQ/%s.hpp' % (en.replace('::', '/') if en.startswith('Unit::') else en.split('::')[0])
        # ---- abbreviations: total (every enumerator has a row) and unique
        try:
            arows = T.enum_rows('Abbreviations', (en,))
        except Unsupported as e:
            check.error('Abbreviations<%s>: %s' % (en, e))
            continue
        abbr = {}
        for k, v in arows:
            abbr.setdefault(k[2], v[1])
        ob = Ob('C08.abbr.unique.%s' % short, 'ground', 'Internal::Abbreviations<%s>' % en, loc)
        ob.backend = 'table comparison'
        dup = [a for a in set(abbr.values()) if list(abbr.values()).count(a) > 1]
        ob.text = 'abbreviations of %s pairwise distinct (%d rows)' % (en, len(arows))
        ob.status = 'discharged' if not dup and len(arows) == len(abbr) else 'failed'
        if ob.status == 'failed':
            ob.detail = 'duplicate abbreviations %s or duplicate keys (%d rows, %d distinct keys)' % (dup, len(arows), len(abbr))
        check.add(ob)
        # ---- CBMC: Abbreviation(e) hits for every e in the declared range, and parses back to e
        try:
            fa = find_inst(units, 'Abbreviation', en)
            fp = find_inst(units, 'ParseEnumeration', en)
        except Unsupported as e:
            check.error(str(e))
            continue
        check.under_contract(fa)
        check.under_contract(fp)
        pn = fa.params[0][0]
        j = IeeeJob(check, 'C08.abbr.total+parse.%s' % short, low, fa,
                    ensures=['%s(__CPROVER_return_value).has' % fp.cname,
                             '%s(__CPROVER_return_value).val == %s' % (fp.cname, pn)],
                    requires=['%s >= %d && %s <= %d' % (pn, min(vals), pn, max(vals))],
                    backend='sat', timeout=300, extra_roots=[fp])
        j.kind, j.en = 'abbr', en
        jobs.append(j)
        # ---- spellings: every row's enumerator is the one the spelling denotes
        try:
            srows = T.enum_rows('Spellings', (en,))
        except Unsupported as e:
            check.error('Spellings<%s>: %s' % (en, e))
            continue
        nrows += len(srows)
        seen_keys = {}
        for ri, (k, v) in enumerate(srows):
            sp, ename = k[1], v[2]
            ob = Ob('C08.spelling.%s.%s' % (short, sp), 'ground', 'Internal::Spellings<%s>' % en, loc)
            ob.backend = 'exact rational arithmetic'
            check.add(ob)
            if sp in seen_keys and seen_keys[sp] != ename:
                ob.status, ob.detail = 'failed', 'spelling listed twice with different enumerators (%s, %s)' % (seen_keys[sp], ename)
                continue
            seen_keys[sp] = ename
            try:
                ok, why = spelling_ok(units, en, sp, ename, abbr)
            except UA.OracleGap as e:
                ob.status, ob.detail = 'error', 'oracle gap: %s' % e
                continue
            ob.text = 'spelling "%s" -> %s::%s : %s' % (sp, en, ename, why)
            ob.status = 'discharged' if ok else 'failed'
            if not ok:
                ob.detail = why
        # ---- strings that are not accepted spellings parse to nothing; accepted ones parse to their row
        ps = fp.params[0][0]
        E0 = cemit.CEmitter(low)
        keys = sorted(set(E0.intern(k[1]) for k, v in srows))
        # interned ids are assigned at emission time: use the emitter of the job itself (see NoneJob)
        jn = NoneJob(check, 'C08.parse.none.%s' % short, low, fp, [k[1] for k, v in srows])
        jn.kind, jn.en = 'none', en
        jobs.append(jn)
        # ---- conversion dispatch rows exist for every unit
        if en.startswith('Unit::'):
            for direction in ('To', 'From'):
                ob = Ob('C08.convert.total.%s.%s' % (short, direction), 'ground', 'Internal::MapOfConversions%sStandard<%s>' % (direction, en), loc)
                ob.backend = 'table comparison'
                have = set(k[2] for k, v in T.enum_rows('MapOfConversions%sStandard' % direction, (en, 'double')))
                miss = [n for n in names if n not in have]
                ob.text = 'every enumerator of %s has a row in MapOfConversions%sStandard (CBMC lookup-hits obligation: C01.dispatch.%s)' % (en, direction, short)
                ob.status = 'discharged' if not miss else 'failed'
                if miss:
                    ob.detail = 'no conversion row for %s' % miss
                check.add(ob)
    # ---- streaming: operator<<(stream, e) inserts exactly the abbreviation of e
    from ..symex import SymEx, State, Ptr, TRUE
    ns = 0
    streamed_types = set()
    for o in units.ast.walk():
        if o.get('kind') == 'FunctionDecl' and o.get('name') == 'operator<<' and low.has_body(o) and not low._in_use_ns(o):
            ps = [c for c in o.get('inner', ()) if c.get('kind') == 'ParmVarDecl']
            if len(ps) != 2:
                continue
            try:
                t1 = low.ntype(ps[1])
            except (Unsupported, ValueError):
                continue
            if t1[0] != 'enum' or t1[1] not in enums:
                continue
            en = t1[1]
            short = en.replace('Unit::', '').replace('::', '_')
            ob = Ob('C08.stream.%s' % short, 'REAL', 'operator<<(std::ostream&, %s)' % en, 'include/PhQ/%s.hpp' % (en.replace('::', '/') if en.startswith('Unit::') else en.split('::')[0]))
            ob.backend = 'phqv symex (token lists)'
            ob.text = 'for every enumerator e: operator<<(stream, e) inserts exactly one item, Abbreviation(e) (total and parsing back: C08.abbr.total+parse.%s), and returns the stream' % short
            try:
                f = low.lower_func(o)
                S = SymEx(low)
                st = State()
                osb = S.newbox(st, S.undef_value(('ostream',)))
                e = S.sym('e')
                r = S.call(f, [Ptr(osb, ()), e], st)
                toks = list(st.mem[osb]['toks'][1]) if isinstance(st.mem[osb]['toks'], tuple) else list(st.mem[osb]['toks'])
                good = len(toks) == 1 and toks[0][0] == TRUE and toks[0][1][0] == 'ABBR' and toks[0][1][2] == e and isinstance(r, Ptr) and r.box == osb
                ob.status = 'discharged' if good else 'failed'
                if not good:
                    ob.detail = 'streams %r' % (toks,)
                check.under_contract(f)
            except Unsupported as ex:
                ob.status, ob.detail = 'error', 'Unsupported: %s' % ex
            check.add(ob)
            ns += 1
            streamed_types.add(en)
            if ob.status == 'failed':
                cpp = '#include <%s>\n#include <sstream>\n#include <cstdio>\nusing namespace PhQ;\nint main() { int bad = 0; for (int i = %d; i <= %d; ++i) { const auto e = static_cast<%s>(i); std::ostringstream s; s << e; if (s.str() != std::string(PhQ::Abbreviation(e))) { std::printf("MISMATCH enumerator %%d streams as \\"%%s\\", abbreviation \\"%%s\\"\\n", i, s.str().c_str(), std::string(PhQ::Abbreviation(e)).c_str()); bad++; } } return bad ? 1 : 0; }\n' % (
                    header_of(en), min(v for _, v in low.enums[en].enumerators), max(v for _, v in low.enums[en].enumerators), cpp_enum(en))
                rec = {'property': 'C08', 'obligation': ob.name, 'function': ob.function, 'verifier_output': ob.detail, 'cpp': cpp, 'confirmed': False}
                r2, err = replay.build_and_run(cpp, os.path.join(check.work, 'replay'), 'r_' + re.sub(r'\W+', '_', ob.name))
                if err:
                    rec['replay_error'] = err[:500]
                elif 'MISMATCH' in r2.stdout:
                    rec['confirmed'], rec['mismatch'], rec['native_output'] = True, r2.stdout.strip().split('\n')[:5], r2.stdout[:800]
                from ..ieeeob import write_replay as wr
                check.violations.append((ob, wr(check, ob, rec), '' if rec['confirmed'] else 'no-failing-input-found'))
    check.extra['stream_operators_seen'] = ns
    if ns < 38:
        check.error('must-fire: expected >= 38 enumeration streaming operators, found %d' % ns)
    check.extra['spelling_rows_seen'] = nrows
    if nrows < 1900:
        check.error('must-fire: expected >= 1900 spelling rows, found %d' % nrows)
    for j, ob in zip(jobs, pmap(lambda j: j.run(), jobs)):
        check.add(ob)
        if ob.status == 'failed':
            path, tail = adjudicate_lookup(check, units, j, ob)
            check.violations.append((ob, path, tail))
    known = {k for k, _ in check.known}
    for ob in list(check.obs):
        if ob.status == 'failed' and ob.mode == 'ground':
            if ob.name in known:
                ob.status = 'known'
                check.known_hits.append('obligation=%s %s' % (ob.name, ob.detail))
                continue
            path, tail = adjudicate_row(check, units, ob)
            check.violations.append((ob, path, tail))


class NoneJob(IeeeJob):
    """ParseEnumeration(s): has a value iff s is one of the accepted spellings (then the row's
    enumerator); strings are interned ids, so 'arbitrary other string' is any id outside the key set."""

    def __init__(self, check, name, low, fp, keys):
        super().__init__(check, name, low, fp, ensures=[], backend='sat', timeout=300)
        self.keys = keys

    def text(self):
        low, f = self.low, self.f
        E = cemit.CEmitter(low)
        ps = f.params[0][0]
        # emit once to intern the table's strings, then build the contract from the ids
        E.unit([f])
        ids = sorted(set(E.intern(k) for k in self.keys))
        inset = ' || '.join('%s == %d' % (ps, i) for i in ids) or '0'
        self.ensures = ['__CPROVER_return_value.has == (%s)' % inset]
        clauses = ['__CPROVER_assigns()'] + ['__CPROVER_ensures(%s)' % e for e in self.ensures]
        E2 = cemit.CEmitter(low)
        E2.strings = list(E.strings)
        harness = 'void harness(void) { int in_%s; %s r = %s(in_%s); }\n' % (ps, E2.ctype(f.ret), f.cname, ps)
        return E2.unit([f], contracts={f.cname: clauses}) + harness


def spelling_ok(units, en, sp, ename, abbr):
    T, low = units.tables, units.low
    if en == 'ConstitutiveModel::Type':
        norm = lambda s: re.sub(r'[ _]', '', s).lower()
        ok = norm(sp) == norm(abbr[ename])
        return ok, 'equals the abbreviation "%s" up to case and spacing' % abbr[ename] if ok else 'does not name %s ("%s")' % (ename, abbr[ename])
    if en == 'UnitSystem':
        atoms = [a for a in SEP_RE.split(sp) if a]
        fits = []
        for sname, _ in low.enums['UnitSystem'].enumerators:
            acc = set()
            for ut in ('Unit::Length', 'Unit::Mass', 'Unit::Force', 'Unit::Time', 'Unit::Temperature'):
                cu = dict((k[2], v[2]) for k, v in reversed(T.enum_rows('ConsistentUnits', (ut,))))[sname]
                acc.add(units.abbreviations(ut)[cu])
                for k, v in T.enum_rows('Spellings', (ut,)):
                    if v[2] == cu and not SEP_RE.search(k[1]):
                        acc.add(k[1])
            if atoms and all(a in acc for a in atoms):
                fits.append(sname)
        ok = fits == [ename]
        return ok, ('its atoms %s are units of exactly that system' % atoms) if ok else ('its atoms %s fit the systems %s, mapped to %s' % (atoms, fits, ename))
    dims = [e for _, e in T.related_dimensions(en)]
    if en == 'Unit::Temperature' and (sp in US.CELSIUS or sp in US.FAHRENHEIT):
        want = '°C' if sp in US.CELSIUS else '°F'
        ok = abbr[ename] == want
        return ok, 'temperature scale %s' % want
    mags, anyd = US.magnitudes(sp, dims)
    tgt = set()
    for alt in range(UA.n_alternatives(abbr[ename])):
        A, pik, B, dm = UA.conversion(en, abbr[ename], alt)
        tgt.add((A, pik))
    if not mags:
        return False, 'no reading of "%s" has the dimension set of %s (readings have %s); mapped to %s' % (sp, en, sorted(anyd), ename)
    if mags & tgt:
        return True, 'denotes %s x SI, the magnitude of %s ("%s")' % (sorted(float(m[0]) for m in mags & tgt), ename, abbr[ename])
    return False, '"%s" denotes %s x SI (pi powers %s) but %s ("%s") is %s x SI' % (
        sp, sorted(float(m[0]) for m in mags), sorted(m[1] for m in mags), ename, abbr[ename], sorted(float(t[0]) for t in tgt))


def cpp_enum(en):
    return 'PhQ::' + en


def header_of(en):
    if en.startswith('Unit::'):
        return 'PhQ/Unit/%s.hpp' % en.split('::')[1]
    return {'UnitSystem': 'PhQ/UnitSystem.hpp', 'ConstitutiveModel::Type': 'PhQ/ConstitutiveModel.hpp'}[en]


def cstr(s):
    return '"' + ''.join(('\\x%02x""' % b) if b > 126 or b < 32 or chr(b) in '"\\' else chr(b) for b in s.encode('utf-8')) + '"'


def adjudicate_row(check, units, ob):
    """Replay a spelling / table row on the real code: parse the spelling, print what it maps to."""
    rec = {'property': 'C08', 'obligation': ob.name, 'table': ob.function, 'source': ob.loc, 'verifier_output': ob.detail}
    m = re.match(r'C08\.spelling\.(\w+?)\.(.*)$', ob.name, re.S)
    if not m:
        rec['confirmed'] = True
        rec['mismatch'] = [ob.detail]
        return write_replay(check, ob, rec), ''
    short, sp = m.group(1), m.group(2)
    en = [e for e in list(units.unit_types) + ['UnitSystem', 'ConstitutiveModel::Type'] if e.replace('Unit::', '').replace('::', '_') == short][0]
    cpp = '#include <%s>\n#include <cstdio>\n#include <string>\nint main() {\n  auto r = PhQ::ParseEnumeration<%s>(%s);\n' % (header_of(en), cpp_enum(en), cstr(sp))
    cpp += '  if (!r.has_value()) { std::printf("NONE\\n"); return 0; }\n  std::printf("%%d %%s\\n", static_cast<int>(r.value()), std::string(PhQ::Abbreviation(r.value())).c_str());\n  return 0; }\n'
    r, err = replay.build_and_run(cpp, os.path.join(check.work, 'replay'), 'r_%d' % (abs(hash(ob.name)) % 10 ** 9))
    confirmed = False
    if err:
        rec['replay_error'] = err
    else:
        rec['cpp'], rec['native_output'] = cpp, r.stdout
        rec['inputs'] = {'spelling': sp}
        got = r.stdout.strip()
        if got != 'NONE':
            confirmed = True
            rec['mismatch'] = ['ParseEnumeration<%s>("%s") returns enumerator %s; %s' % (en, sp, got, ob.detail)]
    rec['confirmed'] = confirmed
    return write_replay(check, ob, rec), ('' if confirmed else 'no-failing-input-found')


def adjudicate_lookup(check, units, j, ob):
    """Finite domain: run the real Abbreviation / ParseEnumeration for every enumerator natively
    (with sanitizers, so that a dereferenced end() iterator is diagnosed)."""
    en = j.en
    low = units.low
    vals = low.enums[en].enumerators
    rec = {'property': 'C08', 'obligation': ob.name, 'function': ob.function, 'source': ob.loc, 'verifier_output': ob.detail, 'contract': ob.text}
    cpp = '#include <%s>\n#include <cstdio>\n#include <string>\nint main() {\n  int bad = 0;\n' % header_of(en)
    if j.kind == 'abbr':
        for n, v in vals:
            cpp += '  { auto e = %s::%s; std::string a(PhQ::Abbreviation(e)); auto r = PhQ::ParseEnumeration<%s>(a); if (!r.has_value() || r.value() != e) { std::printf("MISMATCH %s abbreviation=%%s parses to %%d\\n", a.c_str(), r.has_value() ? static_cast<int>(r.value()) : -1); bad++; } }\n' % (
                cpp_enum(en), n, cpp_enum(en), n)
    else:
        cpp += '  if (PhQ::ParseEnumeration<%s>("\\x01 not a spelling").has_value()) { std::printf("MISMATCH junk parses\\n"); bad++; }\n' % cpp_enum(en)
        for k in j.keys[:400]:
            cpp += '  if (!PhQ::ParseEnumeration<%s>(%s).has_value()) { std::printf("MISMATCH accepted spelling does not parse\\n"); bad++; }\n' % (cpp_enum(en), cstr(k))
    cpp += '  return bad ? 1 : 0; }\n'
    r, err = replay.build_and_run(cpp, os.path.join(check.work, 'replay'), 'r_' + re.sub(r'\W+', '_', ob.name), sanitize=True)
    confirmed = False
    if err:
        rec['replay_error'] = err
    else:
        rec['cpp'], rec['native_output'], rec['native_stderr'] = cpp, r.stdout, r.stderr[-1500:]
        if r.returncode != 0 or 'MISMATCH' in r.stdout:
            confirmed = True
            rec['mismatch'] = (r.stdout.strip().split('\n')[:10] + [r.stderr.strip()[-300:]]) if r.stdout.strip() else [r.stderr.strip()[-500:]]
    rec['confirmed'] = confirmed
    return write_replay(check, ob, rec), ('' if confirmed else 'no-failing-input-found')
