"""Dispatch obligations shared by C01 / C02 / C08 / C20: ConvertInPlace & friends select, for every
enumerator in the enum's declared range, the conversion routine of *that* enumerator, and every
table lookup hits.  Leaves are uninterpreted functions (tied to the real bodies by C01's leaf
obligations), so the SAT problem contains no float multipliers."""
import os, re
from ..core import Ob, pmap
from .. import cemit, cbmc, astload
from ..lower import Unsupported, tstr


def uf_name(loopf):
    return '__CPROVER_uninterpreted_L%s' % loopf.cname


def loop_contract(E, loopf, T, size):
    """Contract variant of Conversions<U,u>::{To,From}Standard<T>(T* values, size_t size) for a fixed size."""
    vn, sn = loopf.params[0][0], loopf.params[1][0]
    cl = ['__CPROVER_requires(%s == %d)' % (sn, size),
          '__CPROVER_requires(__CPROVER_r_ok(%s, %d * sizeof(%s)))' % (vn, size, T),
          '__CPROVER_assigns(__CPROVER_object_upto(%s, %d * sizeof(%s)))' % (vn, size, T)]
    for i in range(size):
        cl.append('__CPROVER_ensures(%s[%d] == %s(__CPROVER_old(%s[%d])))' % (vn, i, uf_name(loopf), vn, i))
    return cl


def spec_functions(E, units, ut, T, loops_to, loops_from):
    """C text of the scalar specification Conv(x, orig, new) over uninterpreted leaves."""
    low = units.low
    std = units.standard(ut)
    KT = E.ctype(('enum', ut))
    idn = cemit.cident(ut + '_' + T)
    lines = []
    for lf in list(loops_to.values()) + list(loops_from.values()):
        lines.append('%s %s(%s);' % (T, uf_name(lf), T))
    for d, loops in (('to', loops_to), ('from', loops_from)):
        lines.append('static %s phqv_spec_%s_%s(%s u, %s x) {' % (T, d, idn, KT, T))
        lines.append('  if (u == (%s)%d) return x;' % (KT, std[2]))
        for uname, val in units.enumerators(ut):
            if uname in loops:
                lines.append('  if (u == (%s)%d) return %s(x);' % (KT, val, uf_name(loops[uname])))
        lines.append('  return x;\n}')
    lines.append('static %s phqv_spec_conv_%s(%s x, %s o, %s n) { return phqv_spec_from_%s(n, phqv_spec_to_%s(o, x)); }' % (
        T, idn, T, KT, KT, idn, idn))
    return '\n'.join(lines) + '\n', 'phqv_spec_conv_' + idn


def stub_text(E, lf, N):
    """Callee contract of a Conversions<U,u>::{To,From}Standard<T>(values, size) for size == N, as a generated stub:
    requires asserted, ensures established (values[k] becomes U(old values[k]) for k < N, nothing else written)."""
    pv, ps = lf.params[0][0], lf.params[1][0]
    body = '\n'.join('  %s[%d] = %s(%s[%d]);' % (pv, k, uf_name(lf), pv, k) for k in range(N))
    return '%s\n{\n  __CPROVER_assert(%s == %d, "callee contract requires size == %d");\n%s\n}' % (E.proto(lf), ps, N, N, body)


def entry_point_job(check, units, ut, T, f, N, name, kind, timeout=300):
    """CBMC obligation for one conversion entry point f of unit type ut: every component k of the result equals
    Conv(component k of the input, original_unit, new_unit); in-place forms write only their argument, copying forms
    write nothing.  kind: 'inplace' | 'copy'."""
    from ..ieeeob import cleaves
    low = units.low
    loops_to = units.loop_funcs(ut, T, 'To')
    loops_from = units.loop_funcs(ut, T, 'From')
    ob = Ob(name, 'IEEE', f.qualname, '%s:%s' % (os.path.relpath(f.loc[0], astload.REPO), f.loc[1]))
    try:
        E = cemit.CEmitter(low)
        spec, conv = spec_functions(E, units, ut, T, loops_to, loops_from)
        spec += 'static _Bool phqv_same(%s a, %s b) { return a == b || (a != a && b != b); }\n' % (T, T)
        vals = [v for _, v in units.enumerators(ut)]
        lo, hi = min(vals), max(vals)
        (vn, vt), (on, _), (nn, _) = f.params
        clauses = ['__CPROVER_requires(%s >= %d && %s <= %d && %s >= %d && %s <= %d)' % (on, lo, on, hi, nn, lo, nn, hi)]
        if vt[0] == 'ptr':
            inl = cleaves(low, vn, vt[1], arrow=True)
        else:
            inl = cleaves(low, vn, vt)
        if kind == 'inplace':
            clauses.append('__CPROVER_assigns(*%s)' % vn)
            for x in inl:
                clauses.append('__CPROVER_ensures(phqv_same(%s, %s(__CPROVER_old(%s), %s, %s)))' % (x, conv, x, on, nn))
            nexp = len(inl)
        else:
            clauses.append('__CPROVER_assigns()')
            outl = cleaves(low, '__CPROVER_return_value', f.ret)
            if len(outl) != len(inl):
                raise Unsupported('component count of result and argument differ')
            for y, x in zip(outl, inl):
                clauses.append('__CPROVER_ensures(phqv_same(%s, %s(%s, %s, %s)))' % (y, conv, ('__CPROVER_old(%s)' % x) if vt[0] != 'ptr' else x, on, nn))
            nexp = len(outl)
        stubs, stubbed = [], []
        for lf in list(loops_to.values()) + list(loops_from.values()):
            stubs.append(stub_text(E, lf, N))
            stubbed.append(lf.cname)
        decl = []
        args = []
        for pn, pt in f.params:
            if pt[0] == 'ptr':
                decl.append('%s in_%s;' % (E.ctype(pt[1]), pn))
                args.append('&in_%s' % pn)
            else:
                decl.append('%s in_%s;' % (E.ctype(pt), pn))
                args.append('in_%s' % pn)
        call = '%s(%s)' % (f.cname, ', '.join(args))
        if f.ret != ('void',):
            call = '%s r = %s' % (E.ctype(f.ret), call)
        harness = 'void harness(void) { %s %s; }\n' % (' '.join(decl), call)
        txt = E.unit([f], contracts={f.cname: clauses}, extra=spec, bodyless=stubbed) + '\n'.join(stubs) + '\n' + harness
        ob.text = '\n'.join(clauses[:6]) + ('\n...' if len(clauses) > 6 else '')
        r = cbmc.verify(txt, os.path.join(check.work, 'cbmc'), re.sub(r'\W+', '_', name), enforce=f.cname, backend='sat', timeout=timeout)
        ob.seconds, ob.backend = r.seconds, r.backend
        post = [p for p in r.props if '.postcondition' in p[0]]
        if r.status == 'ok':
            if len(post) != nexp:
                ob.status, ob.detail = 'error', 'vacuity: %d ensures planned, %d postconditions reported' % (nexp, len(post))
            else:
                ob.status = 'discharged'
        elif r.status == 'failed':
            ob.status = 'failed'
            ob.detail = 'cbmc FAILURE: ' + '; '.join('%s (%s)' % (p[0], p[2][:90]) for p in r.failed()[:5])
            ob.cex = r.trace
        else:
            ob.status, ob.detail = 'undecided', '%s %s' % (r.status, r.note[:300])
    except Unsupported as e:
        ob.status, ob.detail = 'error', 'Unsupported: %s' % e
    return ob


def find_entry(units, name, ut, T, shape):
    """Instantiated PhQ::<name><ut, [N,] T> whose first parameter has the given shape: 'scalar', 'array<N>', or a
    record template name (PlanarVector, Vector, SymmetricDyad, Dyad)."""
    low, a = units.low, units.ast
    for o in a.walk():
        if o.get('kind') == 'FunctionDecl' and o.get('name') == name and low.has_body(o) and \
                any(c.get('kind') == 'TemplateArgument' for c in o.get('inner', ())):
            ps = [c for c in o.get('inner', ()) if c.get('kind') == 'ParmVarDecl']
            if len(ps) != 3:
                continue
            try:
                t0, t1 = low.ntype(ps[0]), low.ntype(ps[1])
            except (Unsupported, ValueError):
                continue
            if t1 != ('enum', ut):
                continue
            v = t0[1] if t0[0] == 'ref' else t0
            if shape == 'scalar' and v == ('f', T):
                return low.lower_func(o)
            if shape.startswith('array') and v[0] == 'sarr' and v[1] == ('f', T) and v[2] == int(shape[6:-1]):
                return low.lower_func(o)
            if v[0] == 'rec' and v[1] == '%s<%s>' % (shape, T):
                return low.lower_func(o)
    raise Unsupported('%s<%s, %s> (%s) not instantiated' % (name, ut, T, shape))


def find_convert_in_place(units, ut, T, shape='scalar'):
    """The instantiated PhQ::ConvertInPlace<ut, T>(T&, ut, ut)."""
    low = units.low
    a = units.ast
    for o in a.walk():
        if o.get('kind') == 'FunctionDecl' and o.get('name') == 'ConvertInPlace' and low.has_body(o):
            ps = [c for c in o.get('inner', ()) if c.get('kind') == 'ParmVarDecl']
            if len(ps) != 3:
                continue
            try:
                t0 = low.ntype(ps[0])
                t1 = low.ntype(ps[1])
            except Unsupported:
                continue
            if t1 != ('enum', ut):
                continue
            if shape == 'scalar' and t0 == ('ref', ('f', T)):
                return low.lower_func(o)
            if shape != 'scalar' and t0[0] == 'ref' and tstr(t0[1]) == shape:
                return low.lower_func(o)
    raise Unsupported('ConvertInPlace<%s, %s> (%s) not instantiated' % (ut, T, shape))


def scalar_dispatch(check, units, T, pid):
    low = units.low
    jobs = []
    for ut in units.unit_types:
        try:
            f = find_convert_in_place(units, ut, T)
            loops_to = units.loop_funcs(ut, T, 'To')
            loops_from = units.loop_funcs(ut, T, 'From')
        except Unsupported as e:
            check.error('%s.dispatch.%s: %s' % (pid, ut, e))
            continue
        jobs.append((ut, f, loops_to, loops_from))

    def go(j):
        ut, f, loops_to, loops_from = j
        name = '%s.dispatch.%s.%s' % (pid, ut.split('::')[1], T.replace(' ', '_'))
        ob = Ob(name, 'IEEE', f.qualname, '%s:%s' % (os.path.relpath(f.loc[0], astload.REPO), f.loc[1]))
        try:
            E = cemit.CEmitter(low)
            spec, conv = spec_functions(E, units, ut, T, loops_to, loops_from)
            n = len(units.enumerators(ut))
            vals = [v for _, v in units.enumerators(ut)]
            lo, hi = min(vals), max(vals)
            vn, on, nn = [p[0] for p in f.params]
            clauses = ['__CPROVER_requires(%s >= %d && %s <= %d && %s >= %d && %s <= %d)' % (on, lo, on, hi, nn, lo, nn, hi),
                       '__CPROVER_assigns(*%s)' % vn,
                       '__CPROVER_ensures(*%s == %s(__CPROVER_old(*%s), %s, %s))' % (vn, conv, vn, on, nn)]
            clauses[2] = '__CPROVER_ensures(phqv_same(*%s, %s(__CPROVER_old(*%s), %s, %s)))' % (vn, conv, vn, on, nn)
            spec += 'static _Bool phqv_same(%s a, %s b) { return a == b || (a != a && b != b); }\n' % (T, T)
            contracts = {f.cname: clauses}
            replace = []
            stubs = []
            stubbed = []
            for lf in list(loops_to.values()) + list(loops_from.values()):
                # the callee's contract (size == 1: values[0] becomes U(old values[0]), nothing else written),
                # written as a generated stub body: requires asserted, ensures established
                pv, ps = lf.params[0][0], lf.params[1][0]
                stubs.append('%s\n{\n  __CPROVER_assert(%s == 1, "callee contract requires size == 1");\n  %s[0] = %s(%s[0]);\n}' % (
                    E.proto(lf), ps, pv, uf_name(lf), pv))
                stubbed.append(lf.cname)
            harness = 'void harness(void) { %s in_value; %s in_o; %s in_n; %s(&in_value, in_o, in_n); }\n' % (
                T, E.ctype(('enum', ut)), E.ctype(('enum', ut)), f.cname)
            txt = E.unit([f], contracts=contracts, extra=spec, bodyless=stubbed) + '\n'.join(stubs) + '\n' + harness
            ob.text = '\n'.join(clauses) + '\n/* %d callees replaced by contract stubs of the form: */\n' % len(stubs) + (stubs[0] if stubs else '')
            r = cbmc.verify(txt, os.path.join(check.work, 'cbmc'), re.sub(r'\W+', '_', name), enforce=f.cname, replace=replace,
                            backend='sat', timeout=300)
            ob.seconds, ob.backend = r.seconds, r.backend
            post = [p for p in r.props if '.postcondition' in p[0]]
            hits = [p for p in r.props if 'lookup hits' in p[2]]
            if r.status == 'ok':
                if len(post) != 1 or len(hits) < 2:
                    ob.status, ob.detail = 'error', 'vacuity: postconditions=%d lookup assertions=%d' % (len(post), len(hits))
                else:
                    ob.status = 'discharged'
                    ob.detail = '%d enumerators, %d lookup-hits assertions, %d properties' % (n, len(hits), len(r.props))
            elif r.status == 'failed':
                ob.status = 'failed'
                ob.detail = 'cbmc FAILURE: ' + '; '.join('%s (%s)' % (p[0], p[2][:90]) for p in r.failed()[:5])
                ob.cex = r.trace
            else:
                ob.status, ob.detail = 'undecided', '%s %s' % (r.status, r.note[:300])
        except Unsupported as e:
            ob.status, ob.detail = 'error', 'Unsupported: %s' % e
        return ob
    obs = pmap(go, jobs)
    for j, ob in zip(jobs, obs):
        check.add(ob)
        check.under_contract(j[1])
        if ob.status == 'failed':
            adjudicate(check, units, j, ob, T)
    return obs


def adjudicate(check, units, j, ob, T):
    """Replay: for the (orig, new) pair of the trace, Convert natively and compare with the two-step
    conversion through the per-unit routines the enumerators name (ConvertStatically with the same
    enumerators as template arguments)."""
    import json
    from .. import replay
    ut, f, loops_to, loops_from = j
    tr = ob.cex or {}
    utn = ut.split('::')[1]
    names = {v: n for n, v in units.enumerators(ut)}

    def ival(key):
        ent = tr.get(key)
        if not ent:
            return None
        try:
            return int(ent[0])
        except ValueError:
            m = re.search(r'-?\d+', ent[0])
            return int(m.group(0)) if m else None
    o, n = ival('in_o'), ival('in_n')
    rec = {'property': check.pid, 'obligation': ob.name, 'function': ob.function, 'source': ob.loc,
           'verifier_output': ob.detail, 'trace_enumerators': {'original': names.get(o, o), 'new': names.get(n, n)}}
    confirmed = False
    if o in names and n in names:
        cpp = '''#include <PhQ/Unit/%(u)s.hpp>
#include <cstdio>
int main() {
  const %(T)s xs[] = {1, 3, -7, 1000, 0.125};
  for (%(T)s x : xs) {
    %(T)s a = PhQ::Convert<PhQ::Unit::%(u)s, %(T)s>(x, PhQ::Unit::%(u)s::%(o)s, PhQ::Unit::%(u)s::%(n)s);
    %(T)s b = PhQ::ConvertStatically<PhQ::Unit::%(u)s, PhQ::Unit::%(u)s::%(o)s, PhQ::Unit::%(u)s::%(n)s>(x);
    std::printf("%%a %%a %%a\\n", (double)x, (double)a, (double)b);
  }
  return 0;
}
''' % {'u': utn, 'T': T, 'o': names[o], 'n': names[n]}
        r, err = replay.build_and_run(cpp, os.path.join(check.work, 'replay'), 'r_' + re.sub(r'\W+', '_', ob.name), sanitize=True)
        if err:
            rec['replay_error'] = err
        else:
            rec['cpp'] = cpp
            rec['native_output'] = r.stdout
            rec['native_stderr'] = r.stderr[-1500:]
            bad = []
            if r.returncode != 0:
                bad.append('native run failed (exit %d): %s' % (r.returncode, r.stderr[-300:]))
            for line in r.stdout.strip().split('\n'):
                ws = line.split()
                if len(ws) == 3 and ws[1] != ws[2]:
                    bad.append('Convert(%s, %s -> %s) = %s but the per-unit routines give %s' % (ws[0], names[o], names[n], ws[1], ws[2]))
            if bad:
                confirmed, rec['mismatch'] = True, bad
    rec['confirmed'] = confirmed
    d = check.replay_dir
    os.makedirs(d, exist_ok=True)
    path = os.path.join(d, re.sub(r'[^\w.-]+', '_', ob.name) + '.replay.json')
    json.dump(rec, open(path, 'w'), indent=1)
    check.violations.append((ob, path, '' if confirmed else 'no-failing-input-found'))
