"""Shared loader for the unit-table properties (C01, C02, C06, C07, C08, C20)."""
import os, sys
from .. import astload, lower, tu, tables
from ..lower import Unsupported
sys.path.insert(0, os.path.join(os.path.dirname(__file__), '..', '..'))
from spec import unit_atoms as UA


class Units:
    def __init__(self, check, types=('double',), shapes=True, model_type=False):
        wd = os.path.join(check.work, 'ast')
        p = astload.dump(tu.units_tu(tuple(types), shapes=shapes, model_type=model_type), wd, 'units')
        self.ast = astload.Ast().load(p)
        os.remove(p)
        self.low = lower.Lowerer(self.ast)
        self.tables = self.low.get_tables()
        self.types = list(types)
        self.unit_types = ['Unit::' + u for u in tu.unit_types()]
        for ut in self.unit_types:
            if ut not in self.low.enums:
                raise Unsupported('enum %s not found in AST' % ut)

    def enumerators(self, ut):
        return self.low.enums[ut].enumerators

    def abbreviations(self, ut):
        """{enumerator name: abbreviation} from Internal::Abbreviations<ut> (first row wins)."""
        out = {}
        for k, v in self.tables.enum_rows('Abbreviations', (ut,)):
            if k[2] not in out:
                out[k[2]] = v[1]
        return out

    def standard(self, ut):
        return self.tables.standard(ut)

    def loop_funcs(self, ut, T, direction):
        """{enumerator name: lowered Conversions<ut,u>::{To,From}Standard<T>(T*, size_t)} from the dispatch table."""
        out = {}
        for k, v in self.tables.enum_rows('MapOfConversions%sStandard' % direction, (ut, T)):
            if k[2] in out:
                continue
            out[k[2]] = self.low.func_for(v[1])
        return out

    def leaf_of(self, loopf):
        """The Conversion<ut,u>::{To,From}Standard<T>(T&) leaf called by a loop function."""
        cs = [self.low.funcs[c] for c in loopf.callees]
        if len(cs) != 1:
            raise Unsupported('%s calls %d functions (expected exactly the leaf)' % (loopf.qualname, len(cs)))
        return cs[0]
