"""Dump and load clang's JSON AST of a generated driver TU that includes the real phq headers.

The AST is produced on every run from /repo's current working tree:
    clang++ -std=c++17 -I<repo>/include -fsyntax-only -Xclang -ast-dump=json -Xclang -ast-dump-filter=<F>
Nothing is cached between runs.
"""
import json, os, re, subprocess, sys, hashlib

REPO = os.environ.get("PHQV_REPO", "/repo")
INC = os.path.join(REPO, "include")

DROP_KINDS = {"FullComment", "ParagraphComment", "TextComment", "BlockCommandComment",
              "ParamCommandComment", "TParamCommandComment", "InlineCommandComment",
              "VerbatimLineComment", "VerbatimBlockComment", "VerbatimBlockLineComment",
              "HTMLStartTagComment", "HTMLEndTagComment"}


class AstError(Exception):
    pass


def all_headers():
    hs = []
    base = os.path.join(INC, "PhQ")
    for root, _, files in os.walk(base):
        for f in sorted(files):
            if f.endswith(".hpp"):
                hs.append(os.path.relpath(os.path.join(root, f), INC))
    return sorted(hs)


def patched_include(workdir):
    """A scratch copy of <repo>/include in which the three forward declarations inside class
    ConstitutiveModel lose their default template argument (clang rejects the later redefinition
    of the default that GCC accepts; nothing else is changed).  Returns the include directory."""
    import shutil
    dst = os.path.join(workdir, "include")
    shutil.rmtree(dst, ignore_errors=True)
    shutil.copytree(INC, dst)
    p = os.path.join(dst, "PhQ", "ConstitutiveModel.hpp")
    s = open(p).read()
    s2, n = re.subn(r"(  template <typename NumericType) = double(>\n  class \w+;)", r"\1\2", s)
    if n != 3:
        raise AstError("patched_include: expected 3 forward declarations in ConstitutiveModel.hpp, found %d" % n)
    open(p, "w").write(s2)
    return dst


def dump(tu_text, workdir, name, filt="PhQ", extra_flags=(), tolerate=None, inc=None):
    """NOTE: dumps of one TU taken with different filters are merged by node id (a heap address, ASLR off); the ids are only
    identical if the filter strings have the same length - use three-character filters only ('PhQ', 'has', 'abs', ...).
    tolerate: list that receives clang's error lines instead of raising (the AST is still dumped;
    declarations clang marks invalid are not lowered and are reported as outside the subset)."""
    if filt and len(filt) != 3:
        raise AstError("ast-dump filters must be three characters long (node ids of merged dumps): %r" % filt)
    os.makedirs(workdir, exist_ok=True)
    src = os.path.join(workdir, name + ".cpp")
    out = os.path.join(workdir, name + ("" if filt == "PhQ" else "." + re.sub(r"\W+", "_", filt or "all")) + ".json")
    with open(src, "w") as f:
        f.write(tu_text)
    # address-space randomisation off: AST node ids (pointer values) are then identical across
    # invocations on the same TU, so dumps taken with different -ast-dump-filter values can be merged
    cmd = ["setarch", "x86_64", "-R", "clang++", "-std=c++17", "-I" + (inc or INC), "-fsyntax-only", "-Wno-everything",
           "-Xclang", "-ast-dump=json"]
    if filt:
        cmd += ["-Xclang", "-ast-dump-filter=" + filt]
    cmd += ["-ferror-limit=0"] + list(extra_flags) + [src]
    with open(out, "w") as fo:
        r = subprocess.run(cmd, stdout=fo, stderr=subprocess.PIPE, text=True)
    if r.returncode != 0:
        errs = [l for l in r.stderr.split("\n") if " error: " in l]
        if tolerate is None or not errs or os.path.getsize(out) < 1000:
            raise AstError("clang failed on %s:\n%s" % (src, "\n".join(errs[:20]) or r.stderr[-3000:]))
        tolerate.extend(errs)
    return out


class Ast:
    """Indexed AST.  Nodes are plain dicts; comment nodes are dropped while loading."""

    def __init__(self):
        self.tops = []
        self.byid = {}
        self.parent = {}      # id -> parent node (for decls)
        self._files = {}      # path -> bytes
        self._curfile = None
        self._curline = None

    # -- loading ---------------------------------------------------------------------------
    def _hook(self, d):
        # SourceLocation leaf objects close in document order; clang prints "file"/"line" only
        # when they change, so carry them forward.
        if "offset" in d and "tokLen" in d:
            if "file" in d:
                self._curfile = d["file"]
            else:
                d["file"] = self._curfile
            if "line" in d:
                self._curline = d["line"]
            else:
                d["line"] = self._curline
            d.pop("includedFrom", None)
        return d

    def load(self, path):
        with open(path) as f:
            s = f.read()
        dec = json.JSONDecoder(object_hook=self._hook)
        i, n = 0, len(s)
        while True:
            while i < n and s[i] in " \n\r\t":
                i += 1
            if i >= n:
                break
            o, i = dec.raw_decode(s, i)
            self._prune_index(o, None)
            self.tops.append(o)
        del s
        return self

    def _prune_index(self, o, parent):
        inner = o.get("inner")
        if inner:
            inner = [c for c in inner if c.get("kind") not in DROP_KINDS]
            o["inner"] = inner
            for c in inner:
                self._prune_index(c, o)
        i = o.get("id")
        if i is not None:
            old = self.byid.get(i)
            if old is None or len(o.get("inner", ())) > len(old.get("inner", ())):
                self.byid[i] = o
                self.parent[i] = parent

    # -- helpers ---------------------------------------------------------------------------
    def source_text(self, loc, length=None):
        """Text of the token at loc (a dict with file/offset/tokLen)."""
        if "spellingLoc" in loc:
            loc = loc["spellingLoc"]
        path = loc["file"]
        if path not in self._files:
            with open(path, "rb") as f:
                self._files[path] = f.read()
        b = self._files[path]
        off = loc["offset"]
        ln = length if length is not None else loc["tokLen"]
        return b[off:off + ln].decode("utf-8")

    def up(self, node):
        """Parent declaration (lexical parent in the dump, else the semantic DeclContext)."""
        i = node.get("id")
        p = self.parent.get(i) if i else None
        if p is None and node.get("parentDeclContextId"):
            p = self.byid.get(node["parentDeclContextId"])
        return p

    def walk(self, o=None):
        stack = list(reversed(self.tops)) if o is None else [o]
        while stack:
            x = stack.pop()
            yield x
            inner = x.get("inner")
            if inner:
                stack.extend(reversed(inner))


def kids(o):
    return o.get("inner", ())


def qualtype(o):
    t = o.get("type") or {}
    return t.get("desugaredQualType") or t.get("qualType")
