"""Native replay: call the *real* header functions on concrete inputs and read back raw components.

Objects are filled / read as raw arrays of their numeric type (all quantity and tensor types are
standard-layout aggregates of N numbers; that fact is itself checked by C17).  The TU is compiled
with -fno-access-control so that non-public members named by a failed obligation can be called.
Native execution is only ever used to confirm or refute a violation, never to discharge one.
"""
import os, re, subprocess, json, struct, hashlib
from fractions import Fraction
from .lower import tstr, Unsupported
from . import astload

CXX = ['g++', '-std=c++17', '-O0', '-fno-fast-math', '-fno-access-control', '-w', '-D_GLIBCXX_ASSERTIONS']


def cpp_type(low, t):
    k = t[0]
    if k == 'f':
        return t[1]
    if k == 'i':
        return {(8, True): 'signed char', (8, False): 'unsigned char', (16, True): 'short', (16, False): 'unsigned short',
                (32, True): 'int', (32, False): 'unsigned', (64, True): 'long', (64, False): 'unsigned long'}[(t[1], t[2])]
    if k == 'bool':
        return 'bool'
    if k == 'enum':
        return 'PhQ::' + t[1]
    if k == 'sarr':
        return 'std::array<%s, %d>' % (cpp_type(low, t[1]), t[2])
    if k == 'opt':
        return 'std::optional<%s>' % cpp_type(low, t[1])
    if k == 'rec':
        return cpp_record(low, t[1])
    if k in ('ptr', 'ref'):
        return cpp_type(low, t[1])
    raise Unsupported('C++ type for %s' % (t,))


def cpp_record(low, canon):
    r = low.record(canon)
    if r.template is None:
        return 'PhQ::' + canon
    args = []
    node = r.node
    for c in node.get('inner', ()):
        if c.get('kind') == 'TemplateArgument':
            if 'type' in c:
                args.append(cpp_type(low, low.ptype(c['type']['qualType'])))
            elif 'value' in c:
                args.append(str(c['value']))
            else:
                raise Unsupported('template argument of %s' % canon)
    return 'PhQ::%s<%s>' % (r.template, ', '.join(args))


def leaf_types(low, t):
    """Scalar leaf IR types of a value of type t in declaration order."""
    k = t[0]
    if k in ('f', 'i', 'bool', 'enum'):
        return [t]
    if k == 'sarr':
        return leaf_types(low, t[1]) * t[2]
    if k == 'rec':
        r = low.record(t[1])
        out = []
        for b in r.bases:
            out += leaf_types(low, ('rec', b))
        for fn, ft in r.fields:
            out += leaf_types(low, ft)
        return out
    raise Unsupported('leaf types of %s' % (t,))


def hexlit(x, kind):
    """x: float | Fraction -> C++ literal of numeric kind."""
    if isinstance(x, Fraction):
        from .cemit import round_to, hexfloat
        return hexfloat(round_to(x, kind), kind)
    suf = {'float': 'f', 'double': '', 'long double': 'L'}[kind]
    if x != x:
        return 'std::numeric_limits<%s>::quiet_NaN()' % kind
    if x in (float('inf'), float('-inf')):
        return ('-' if x < 0 else '') + 'std::numeric_limits<%s>::infinity()' % kind
    return float(x).hex() + suf


class NativeCall:
    """Builds a C++ program that calls function f natively."""

    def __init__(self, low, f):
        self.low, self.f = low, f

    def call_expr(self, argnames):
        f = self.f
        name = f.node.get('name')
        if f.kind == 'ctor':
            return None
        if f.kind == 'method':
            obj, rest = argnames[0], argnames[1:]
            if name.startswith('operator') and not re.match(r'operator[^\w]', name):
                # conversion operator
                return 'static_cast<%s>(%s)' % (name[len('operator '):], obj)
            return '%s.%s(%s)' % (obj, name, ', '.join(rest))
        if f.kind == 'static':
            return '%s::%s(%s)' % (cpp_record(self.low, f.record), name, ', '.join(argnames))
        q = self.low.qual_of(f.node)
        ns = '::'.join(q.split('::')[:-1])
        pre = 'PhQ::' + (ns + '::' if ns else '')
        par = self.low.ast.up(f.node)
        if par is not None and par.get('kind') == 'FunctionTemplateDecl':
            p2 = self.low.ast.up(par)
            if p2 is not None and p2.get('name') == 'std':
                pre = 'std::'
        return '%s%s(%s)' % (pre, name, ', '.join(argnames))

    def program(self, inputs, includes=None, extra=()):
        """inputs: {param name: [leaf values]} (floats/Fractions/ints).  Returns C++ text printing
        'RET <leaves...>' and 'POST <param> <leaves...>' lines, each leaf as hex float or integer."""
        low, f = self.low, self.f
        hs = includes or astload.all_headers()
        from .tu import includes as inc
        lines = [inc(hs), '#include <cstdio>', '#include <cstring>', '#include <limits>', 'template <class T> void dump(const char* tag, const T& v, const char* fmt, int n, int sz) {',
                 '  const unsigned char* p = reinterpret_cast<const unsigned char*>(&v); std::printf("%s", tag);',
                 '  for (int i = 0; i < n; ++i) { if (sz == 4) { float x; std::memcpy(&x, p + 4*i, 4); std::printf(" %a", (double)x); }',
                 '    else if (sz == 8) { double x; std::memcpy(&x, p + 8*i, 8); std::printf(" %a", x); }',
                 '    else { long double x; std::memcpy(&x, p + 16*i, 16); std::printf(" %La", x); } }',
                 '  std::printf("\\n"); }', 'int main() {']
        argn = []
        posts = []
        for i, (pn, pt) in enumerate(f.params):
            vt = pt[1] if pt[0] == 'ptr' else pt
            ct = cpp_type(low, vt)
            if f.kind == 'ctor' and i == 0:
                continue
            vals = inputs[pn]
            lts = leaf_types(low, vt)
            if vt[0] in ('f',):
                lines.append('  %s a_%s = %s;' % (ct, pn, hexlit(vals[0], vt[1])))
            elif vt[0] in ('i', 'bool'):
                lines.append('  %s a_%s = %d;' % (ct, pn, int(vals[0])))
            elif vt[0] == 'enum':
                lines.append('  %s a_%s = static_cast<%s>(%d);' % (ct, pn, ct, int(vals[0])))
            else:
                kinds = set(tstr(l) for l in lts)
                if len(kinds) != 1 or lts[0][0] not in ('f', 'i'):
                    raise Unsupported('replay of mixed-leaf argument %s' % tstr(vt))
                if lts[0][0] == 'i':
                    nk = cpp_type(low, lts[0])
                    lines.append('  %s raw_%s[%d] = {%s};' % (nk, pn, len(lts), ', '.join(str(int(v)) for v in vals)))
                else:
                    nk = lts[0][1]
                    lines.append('  %s raw_%s[%d] = {%s};' % (nk, pn, len(lts), ', '.join(hexlit(v, nk) for v in vals)))
                lines.append('  %s a_%s; static_assert(sizeof(a_%s) == sizeof(raw_%s), "layout"); std::memcpy(&a_%s, raw_%s, sizeof a_%s);' % (ct, pn, pn, pn, pn, pn, pn))
                if pt[0] == 'ptr' and lts[0][0] == 'f':
                    posts.append((pn, len(lts), nk))
            argn.append('a_' + pn)
        rt = f.ret
        if f.kind == 'ctor':
            ct = cpp_record(low, f.record)
            lines.append('  %s r(%s);' % (ct, ', '.join(argn)))
            lt = leaf_types(low, ('rec', f.record))
            lines.append('  dump("RET", r, "", %d, sizeof(%s));' % (len(lt), lt[0][1]))
        else:
            ce = self.call_expr(argn)
            if rt == ('void',):
                lines.append('  %s;' % ce)
            else:
                vt = rt[1] if rt[0] == 'ptr' else rt
                if vt[0] == 'f':
                    lines.append('  %s r = %s; dump("RET", r, "", 1, sizeof(%s));' % (vt[1], ce, vt[1]))
                elif vt[0] in ('bool', 'i', 'enum'):
                    lines.append('  std::printf("RET %%ld\\n", (long)(%s));' % ce)
                elif vt[0] == 'opt':
                    lt = leaf_types(low, vt[1])
                    lines.append('  auto r = %s; if (r.has_value()) { dump("RET 1", r.value(), "", %d, sizeof(%s)); } else std::printf("RET 0\\n");' % (ce, len(lt), lt[0][1]))
                else:
                    lt = leaf_types(low, vt)
                    lines.append('  auto r = %s; dump("RET", r, "", %d, sizeof(%s));' % (ce, len(lt), lt[0][1]))
        for pn, n, nk in posts:
            lines.append('  dump("POST %s", a_%s, "", %d, sizeof(%s));' % (pn, pn, n, nk))
        for x in extra:
            lines.append('  ' + x)
        lines.append('  return 0; }')
        return '\n'.join(lines) + '\n'


def build_and_run(cpp, workdir, name, sanitize=False, timeout=300):
    os.makedirs(workdir, exist_ok=True)
    src = os.path.join(workdir, name + '.cpp')
    exe = os.path.join(workdir, name + '.exe')
    with open(src, 'w') as f:
        f.write(cpp)
    cmd = CXX + (['-fsanitize=address,undefined', '-fno-sanitize-recover=undefined'] if sanitize else []) + \
        ['-I' + astload.INC, src, '-o', exe]
    r = subprocess.run(cmd, capture_output=True, text=True, timeout=timeout)
    if r.returncode != 0:
        return None, 'compile failed: ' + r.stderr[-1500:]
    try:
        r = subprocess.run([exe], capture_output=True, text=True, errors='replace', timeout=60)
    except subprocess.TimeoutExpired:
        return None, 'native run timed out'
    finally:
        try:
            os.remove(exe)
        except OSError:
            pass
    return r, None


def parse_out(stdout):
    """-> {'RET': [values], 'POST name': [values]} with floats (float.fromhex) / ints."""
    out = {}
    for line in stdout.split('\n'):
        ws = line.split()
        if not ws:
            continue
        if ws[0] == 'RET':
            out['RET'] = [num(w) for w in ws[1:]]
        elif ws[0] == 'POST':
            out['POST ' + ws[1]] = [num(w) for w in ws[2:]]
        elif ws[0] == 'EXTRA':
            out['EXTRA ' + ws[1]] = [num(w) for w in ws[2:]]
    return out


def num(w):
    """hex float -> Fraction (exact); nan/inf -> float; integer -> int."""
    lw = w.lower()
    if 'nan' in lw:
        return float('nan')
    if 'inf' in lw:
        return float('-inf') if lw.startswith('-') else float('inf')
    m = re.match(r'^([-+]?)0x([0-9a-f]*)\.?([0-9a-f]*)p([-+]?\d+)$', lw)
    if m:
        sign = -1 if m.group(1) == '-' else 1
        ip, fp, ex = m.group(2) or '0', m.group(3), int(m.group(4))
        mant = int(ip + fp, 16)
        return sign * Fraction(mant) * Fraction(2) ** (ex - 4 * len(fp))
    try:
        return int(w)
    except ValueError:
        return Fraction(w)
