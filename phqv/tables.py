"""Extraction of phq's namespace-scope tables (std::map / std::unordered_map initialiser lists) from the
AST: Abbreviations, Spellings, ConsistentUnits, RelatedUnitSystems, MapOfConversions{To,From}Standard,
RelatedDimensions, Standard.  Rows are read from the initialiser lists clang has type-checked; the
std::map / unordered_map abstract function (first row with an equal key wins, duplicates ignored) is a
trusted mapping (DESIGN.md 3.1)."""
import json
from .astload import kids
from .lower import Unsupported

TABLE_NAMES = ('Abbreviations', 'Spellings', 'ConsistentUnits', 'RelatedUnitSystems',
               'MapOfConversionsToStandard', 'MapOfConversionsFromStandard')


def _items(node, out):
    k = node.get('kind')
    if k == 'DeclRefExpr':
        rd = node['referencedDecl']
        if rd.get('kind') == 'EnumConstantDecl':
            out.append(('enum', rd['id'], rd.get('name')))
            return
        if rd.get('kind') in ('FunctionDecl', 'CXXMethodDecl'):
            out.append(('func', rd['id'], rd.get('name')))
            return
    if k == 'StringLiteral':
        from .lower import c_unescape
        out.append(('str', c_unescape(node.get('value', '""')), None))
        return
    if k == 'UnresolvedLookupExpr':
        out.append(('unresolved', node.get('lookups', [{}])[0].get('id'), node.get('name')))
        return
    for c in kids(node):
        _items(c, out)


def _rows_node(node):
    """The InitListExpr whose children are the rows (array of pairs)."""
    stack = [node]
    while stack:
        x = stack.pop(0)
        if x.get('kind') == 'InitListExpr':
            t = (x.get('type') or {}).get('qualType', '')
            if '[' in t or t == 'void':
                return x
        stack.extend(kids(x))
    return None


class Tables:
    def __init__(self, low):
        self.low = low
        self.ast = low.ast
        self.vars = {}      # (name, (template arg strings)) -> node
        self.by_id = {}
        for o in self.ast.walk():
            if o.get('kind') == 'VarTemplateSpecializationDecl' and o.get('name') in TABLE_NAMES + ('RelatedDimensions', 'Standard'):
                if self.ast.byid.get(o['id']) is not o:
                    continue
                args = tuple(self._targ(c) for c in kids(o) if c.get('kind') == 'TemplateArgument')
                inits = [c for c in kids(o) if c.get('kind') != 'TemplateArgument']
                if not inits:
                    continue
                self.vars[(o['name'], args)] = o
                self.by_id[o['id']] = (o['name'], args)

    def _targ(self, c):
        t = c.get('type', {}).get('qualType', '')
        return t.replace('PhQ::', '')

    def rows(self, name, args):
        """[(key item, value item)] of a table; items are ('enum', declid, name) | ('str', text) | ('func', declid, name)."""
        node = self.vars.get((name, tuple(args)))
        if node is None:
            raise Unsupported('table %s<%s> not instantiated in this TU' % (name, ', '.join(args)))
        init = [c for c in kids(node) if c.get('kind') != 'TemplateArgument'][0]
        rn = _rows_node(init)
        if rn is None:
            it = []
            _items(init, it)
            if not it:
                return []      # default-constructed (empty) table
            raise Unsupported('no initialiser list in table %s<%s>' % (name, ', '.join(args)))
        rows = []
        elems = list(kids(rn))
        for e in elems:
            it = []
            _items(e, it)
            if len(it) != 2:
                raise Unsupported('table %s<%s>: row with %d items' % (name, ', '.join(args), len(it)))
            rows.append((it[0], it[1]))
        return rows

    def key_value_types(self, name, args):
        """IR types of key and mapped value, from the declared std::map / unordered_map type."""
        from .lower import split_targs
        node = self.vars[(name, tuple(args))]
        t = node['type'].get('desugaredQualType') or node['type']['qualType']
        inner = t[t.index('<') + 1: t.rindex('>')]
        parts = split_targs(inner)
        return self.low.ptype(parts[0]), self.low.ptype(parts[1])

    def enum_rows(self, name, args):
        """rows with enum constants resolved to (enum qualname, enumerator name, value)."""
        out = []
        for k, v in self.rows(name, args):
            out.append((self._res(k), self._res(v)))
        return out

    def _res(self, it):
        if it[0] == 'enum':
            return ('enum',) + self.low.enumconst[it[1]]
        return it

    def standard(self, enumname):
        node = self.vars.get(('Standard', (enumname,)))
        if node is None:
            raise Unsupported('Standard<%s> not found' % enumname)
        it = []
        for c in kids(node):
            if c.get('kind') != 'TemplateArgument':
                _items(c, it)
        if len(it) != 1 or it[0][0] != 'enum':
            raise Unsupported('Standard<%s> initialiser' % enumname)
        return self.low.enumconst[it[0][1]]

    def related_dimensions(self, enumname):
        """7 exponents (T, L, M, I, Theta, N, J) of RelatedDimensions<enumname>."""
        node = self.vars.get(('RelatedDimensions', (enumname,)))
        if node is None:
            raise Unsupported('RelatedDimensions<%s> not found' % enumname)
        vals = []

        def walk(n):
            if n.get('kind') == 'IntegerLiteral':
                vals.append(int(n['value']))
                return True
            if n.get('kind') == 'UnaryOperator' and n.get('opcode') == '-':
                m = len(vals)
                for c in kids(n):
                    walk(c)
                for i in range(m, len(vals)):
                    vals[i] = -vals[i]
                return True
            for c in kids(n):
                walk(c)
        order = []

        def ctor_walk(n):
            # Dimensions(Time{..}, Length{..}, ...): collect per-argument exponent by the argument's type
            k = n.get('kind')
            if k in ('CXXConstructExpr', 'CXXTemporaryObjectExpr', 'CXXFunctionalCastExpr', 'InitListExpr'):
                t = (n.get('type') or {}).get('desugaredQualType') or (n.get('type') or {}).get('qualType', '')
                t = t.replace('const ', '').replace('PhQ::', '')
                if t.startswith('Dimension::') and k != 'InitListExpr' or (k == 'InitListExpr' and t.startswith('Dimension::')):
                    m = len(vals)
                    for c in kids(n):
                        walk(c)
                    v = vals[m] if len(vals) > m else 0
                    del vals[m:]
                    order.append((t.split('::')[-1], v))
                    return
            for c in kids(n):
                ctor_walk(c)
        for c in kids(node):
            if c.get('kind') != 'TemplateArgument':
                ctor_walk(c)
        if not order:
            # initialised from the constant PhQ::Dimensionless
            refs = [x for c in kids(node) for x in self.ast.walk(c) if x.get('kind') == 'DeclRefExpr']
            if any(r['referencedDecl'].get('name') == 'Dimensionless' for r in refs):
                return [(n, 0) for n in ('Time', 'Length', 'Mass', 'ElectricCurrent', 'Temperature', 'SubstanceAmount', 'LuminousIntensity')]
            raise Unsupported('RelatedDimensions<%s> initialiser not understood' % enumname)
        return order
