"""Terms -> SMT-LIB 2 (QF_NRA / QF_UFNRA) and solver invocation (z3 nlsat strategy, z3-new, cvc5)."""
import os, subprocess, time, re
from fractions import Fraction
from .symex import TRUE, FALSE, is_boolterm

STRATEGY = '(check-sat-using (then simplify solve-eqs qfnra-nlsat))'


def sname(n):
    return '|' + n + '|'


class Printer:
    """Prints terms with let-free sharing through define-fun of repeated subterms (DAG aware)."""

    def __init__(self):
        self.cache = {}

    def p(self, t):
        k = id(t)
        c = self.cache.get(k)
        if c is not None and c[0] is t:
            return c[1]
        s = self._p(t)
        self.cache[k] = (t, s)
        return s

    def _p(self, t):
        op = t[0]
        if op == 'num':
            f = t[1]
            if f.denominator == 1:
                return str(f.numerator) + '.0' if f >= 0 else '(- %d.0)' % (-f.numerator)
            if f >= 0:
                return '(/ %d.0 %d.0)' % (f.numerator, f.denominator)
            return '(- (/ %d.0 %d.0))' % (-f.numerator, f.denominator)
        if op == 'sym':
            return sname(t[1])
        if op in ('+', '-', '*', '/'):
            return '(%s %s %s)' % (op, self.p(t[1]), self.p(t[2]))
        if op == 'neg':
            return '(- %s)' % self.p(t[1])
        if op == 'app':
            return '(%s %s)' % (sname('uf_' + t[1]), ' '.join(self.p(a) for a in t[2]))
        if op == 'ite':
            return '(ite %s %s %s)' % (self.p(t[1]), self.p(t[2]), self.p(t[3]))
        if op == 'true':
            return 'true'
        if op == 'false':
            return 'false'
        if op in ('<', '<='):
            return '(%s %s %s)' % (op, self.p(t[1]), self.p(t[2]))
        if op == '==':
            return '(= %s %s)' % (self.p(t[1]), self.p(t[2]))
        if op in ('and', 'or'):
            return '(%s %s %s)' % (op, self.p(t[1]), self.p(t[2]))
        if op == 'not':
            return '(not %s)' % self.p(t[1])
        raise ValueError('cannot print term %r' % (t,))


def collect(t, syms, funs, seen):
    stack = [t]
    while stack:
        x = stack.pop()
        if id(x) in seen:
            continue
        seen.add(id(x))
        op = x[0]
        if op == 'sym':
            syms.add(x[1])
        elif op == 'num' or op in ('true', 'false'):
            pass
        elif op == 'app':
            funs[x[1]] = len(x[2])
            stack.extend(x[2])
        else:
            for c in x[1:]:
                if isinstance(c, tuple):
                    stack.append(c)


def query(assumes, goal, want_model_of=()):
    """SMT-LIB text asserting assumptions and the negated goal."""
    syms, funs, seen = set(), {}, set()
    for a in assumes:
        collect(a, syms, funs, seen)
    collect(goal, syms, funs, seen)
    pr = Printer()
    lines = ['(set-option :produce-models true)']
    for s in sorted(syms):
        lines.append('(declare-fun %s () Real)' % sname(s))
    for f, n in sorted(funs.items()):
        lines.append('(declare-fun %s (%s) Real)' % (sname('uf_' + f), ' '.join(['Real'] * n)))
    for a in assumes:
        lines.append('(assert %s)' % pr.p(a))
    lines.append('(assert (not %s))' % pr.p(goal))
    return '\n'.join(lines) + '\n', sorted(syms), bool(funs)


def run_solver(text, path, inputs, timeout=60, solvers=('z3', 'z3-new')):
    """Returns (status, model, seconds, solver) with status in {'unsat','sat','unknown'}."""
    attempts = []
    has_uf = '(declare-fun |uf_' in text
    for sv in solvers:
        if sv in ('z3', 'z3-new'):
            variants = [STRATEGY] if not has_uf else []
            variants.append('(check-sat)')
        else:
            variants = ['(check-sat)']
        for chk in variants:
            gv = ''
            if inputs:
                gv = '(get-value (%s))' % ' '.join(sname(s) for s in inputs)
            body = text + chk + '\n' + gv + '\n'
            fn = path + '.%s%s.smt2' % (sv, '' if chk == STRATEGY else '.plain')
            with open(fn, 'w') as f:
                if sv == 'cvc5':
                    f.write('(set-logic %s)\n' % ('QF_UFNRA' if has_uf else 'QF_NRA'))
                f.write(body)
            if sv == 'cvc5':
                cmd = ['cvc5', '--tlimit=%d' % (timeout * 1000), fn]
            else:
                cmd = [sv, '-T:%d' % timeout, fn]
            t0 = time.time()
            try:
                r = subprocess.run(cmd, capture_output=True, text=True, timeout=timeout + 10)
                out = r.stdout
            except subprocess.TimeoutExpired:
                out = 'timeout'
            dt = time.time() - t0
            first = out.strip().split('\n')[0].strip() if out.strip() else ''
            attempts.append((sv, chk == STRATEGY, first, dt))
            if first == 'unsat':
                return 'unsat', None, dt, sv + ('-nlsat' if chk == STRATEGY else ''), fn
            if first == 'sat':
                return 'sat', parse_model(out), dt, sv + ('-nlsat' if chk == STRATEGY else ''), fn
    return 'unknown', attempts, sum(a[3] for a in attempts), None, None


def parse_model(out):
    m = {}
    for mm in re.finditer(r'\(\|([^|]+)\|\s+(\(.*?\)|[-0-9./?]+)\)\s*\n', out + '\n'):
        m[mm.group(1)] = mm.group(2)
    # robust: parse s-expressions of the get-value answer
    txt = out[out.find('('):] if '(' in out else ''
    try:
        vals = sexp(txt)
        for pair in vals:
            if isinstance(pair, list) and len(pair) == 2 and isinstance(pair[0], str):
                m[pair[0].strip('|')] = evalnum(pair[1])
    except Exception:
        pass
    return m


def sexp(s):
    toks = re.findall(r'\(|\)|\|[^|]*\||[^\s()]+', s)
    pos = 0

    def rd():
        nonlocal pos
        t = toks[pos]
        pos += 1
        if t == '(':
            out = []
            while toks[pos] != ')':
                out.append(rd())
            pos += 1
            return out
        return t
    return rd()


def evalnum(x):
    if isinstance(x, str):
        x = x.rstrip('?')
        try:
            return Fraction(x)
        except Exception:
            return None
    if isinstance(x, list):
        if x[0] == '-' and len(x) == 2:
            v = evalnum(x[1])
            return -v if v is not None else None
        if x[0] == '/' and len(x) == 3:
            a, b = evalnum(x[1]), evalnum(x[2])
            return a / b if a is not None and b else None
        if x[0] == 'root-obj':
            return None
    return None
