"""Symbolic execution of the lowered IR into real-arithmetic terms (REAL / NOISY modes).

Machine floating-point arithmetic is interpreted as exact arithmetic over the reals (REAL) or by
the standard model fl(a op b) = (a op b)(1+d), |d| <= u (NOISY).  The bodies contain no unbounded
loops (only loops with concrete trip counts are unrolled; anything else raises).

Terms:  ('num', Fraction) ('sym', name) ('+',a,b) ('-',a,b) ('*',a,b) ('/',a,b) ('neg',a)
        ('app', f, (args))  ('ite', c, a, b)
Bools:  ('true',) ('false',) ('<',a,b) ('<=',a,b) ('==',a,b) ('and',a,b) ('or',a,b) ('not',a)
"""
from fractions import Fraction
from .ir import *
from .lower import Unsupported, tstr

TRUE = ('true',)
FALSE = ('false',)


def num(v):
    return ('num', Fraction(v))


def is_num(t):
    return t[0] == 'num'


def mk(op, a, b):
    if is_num(a) and is_num(b):
        x, y = a[1], b[1]
        if op == '+':
            return num(x + y)
        if op == '-':
            return num(x - y)
        if op == '*':
            return num(x * y)
        if op == '/' and y != 0:
            return num(x / y)
    if op == '*':
        if is_num(a) and a[1] == 1:
            return b
        if is_num(b) and b[1] == 1:
            return a
        if (is_num(a) and a[1] == 0) or (is_num(b) and b[1] == 0):
            return num(0)
    if op == '+':
        if is_num(a) and a[1] == 0:
            return b
        if is_num(b) and b[1] == 0:
            return a
    if op == '-' and is_num(b) and b[1] == 0:
        return a
    if op == '/' and is_num(b) and b[1] == 1:
        return a
    return (op, a, b)


def neg(a):
    if is_num(a):
        return num(-a[1])
    return ('neg', a)


def cmp(op, a, b):
    if is_num(a) and is_num(b):
        x, y = a[1], b[1]
        r = {'<': x < y, '<=': x <= y, '>': x > y, '>=': x >= y, '==': x == y, '!=': x != y}[op]
        return TRUE if r else FALSE
    if op == '>':
        return ('<', b, a)
    if op == '>=':
        return ('<=', b, a)
    if op == '!=':
        return lnot(('==', a, b))
    return (op, a, b)


def land(a, b):
    if a == TRUE:
        return b
    if b == TRUE:
        return a
    if a == FALSE or b == FALSE:
        return FALSE
    return ('and', a, b)


def lor(a, b):
    if a == FALSE:
        return b
    if b == FALSE:
        return a
    if a == TRUE or b == TRUE:
        return TRUE
    return ('or', a, b)


def lnot(a):
    if a == TRUE:
        return FALSE
    if a == FALSE:
        return TRUE
    if a[0] == 'not':
        return a[1]
    return ('not', a)


def ite(c, a, b):
    if c == TRUE:
        return a
    if c == FALSE:
        return b
    if a == b:
        return a
    if a == TRUE and b == FALSE:
        return c
    if a == FALSE and b == TRUE:
        return lnot(c)
    return ('ite', c, a, b)


BOOL_OPS = ('true', 'false', '<', '<=', '==', 'and', 'or', 'not')


def is_boolterm(t):
    return t[0] in BOOL_OPS or (t[0] == 'ite' and is_boolterm(t[2])) or (t[0] == 'bsym')


class Ptr:
    """Pointer value: box + path to an object; `elem` pointers address element `off` of the array at path."""
    __slots__ = ('box', 'path', 'off', 'elem')

    def __init__(self, box, path, off=0, elem=False):
        self.box, self.path, self.off, self.elem = box, tuple(path), off, elem

    def __eq__(self, o):
        return isinstance(o, Ptr) and (self.box, self.path, self.off, self.elem) == (o.box, o.path, o.off, o.elem)

    def __hash__(self):
        return hash((self.box, self.path, self.off, self.elem))

    def __repr__(self):
        return 'Ptr(%s,%s,%s,%s)' % (self.box, self.path, self.off, self.elem)


class Undef:
    """Indeterminate value (uninitialised storage)."""
    def __repr__(self):
        return 'Undef'


UNDEF = Undef()


class State:
    def __init__(self):
        self.mem = {}            # box id -> value
        self.returned = FALSE
        self.retval = None

    def copy(self):
        s = State()
        s.mem = dict(self.mem)
        s.returned = self.returned
        s.retval = self.retval
        return s


class SymEx:
    def __init__(self, low, mode='REAL', unit_roundoff=None, summaries=None, summary_for=None, const_floor=None):
        self.low = low
        self.mode = mode
        self.u = unit_roundoff
        self.by_cname = {}
        for f in low.funcs.values():
            self.by_cname[f.cname] = f
        self.summaries = summaries or {}
        self.summary_for = summary_for     # optional: Func -> summary or None (decided per callee)
        self.nbox = 0
        self.nsym = 0
        self.assumes = []        # bool terms assumed (library contracts: sqrt, PI bounds, noise bounds)
        self.domain = []         # (bool term, text): conditions the code needs (sqrt arg >= 0, divisor != 0)
        self.syms = {}           # name -> sort ('Real')
        self.funs = {}           # uninterpreted function name -> arity
        self.depth = 0
        self.roundings = 0
        self.reads_undef = []
        # constant audit: constants of a floating type whose rank is below const_floor take the value they have in that type
        # (literal rounding, constant folding, casts); everything else is exact.  Comparing such a run with the exact one shows
        # whether a constant is computed in a type narrower than the result it flows into.
        self.const_floor = const_floor
        self.intermediates = []
        self.float_to_int = []     # floating values converted to an integer type (truncation)
        self.narrowings = []      # (to, from) of every precision-losing cast of a non-constant value
        self.narrow_bad = []      # those that narrow below the result type of the function under contract
        self.narrowed_terms = []  # the value narrowed, in step with self.narrowings
        self.int_to_float = []    # (to, from integer type, value) of every conversion of a non-constant integer value to a floating type
        self.pc = []             # path condition stack (bool terms)
        self.libm_calls = 0

    def need(self, cond, text):
        """Record a condition the code relies on at this point (guarded by the path condition)."""
        g = TRUE
        for c in self.pc:
            g = land(g, c)
        self.domain.append((lor(lnot(g), cond) if g != TRUE else cond, text))

    # ------------------------------------------------------------ symbols
    FRANK = {'float': 0, 'double': 1, 'long double': 2}

    def fresh(self, base):
        self.nsym += 1
        n = '%s!%d' % (base, self.nsym)
        self.syms[n] = 'Real'
        return ('sym', n)

    def sym(self, name):
        self.syms[name] = 'Real'
        return ('sym', name)

    def newbox(self, st, v):
        self.nbox += 1
        st.mem[self.nbox] = v
        return self.nbox

    def symbolic_value(self, t, name):
        """A fully symbolic value of IR type t; scalar leaves named name.path."""
        k = t[0]
        if k == 'f':
            return self.sym(name)
        if k in ('i', 'enum', 'bool'):
            return self.sym(name)
        if k == 'sarr':
            return [self.symbolic_value(t[1], '%s.%d' % (name, i)) for i in range(t[2])]
        if k == 'rec':
            r = self.low.record(t[1])
            d = {}
            for i, b in enumerate(r.bases):
                d['_b%d' % i] = self.symbolic_value(('rec', b), name + '._b%d' % i)
            for fn, ft in r.fields:
                d[fn] = self.symbolic_value(ft, name + '.' + fn)
            return d
        if k == 'opt':
            return {'has': self.sym(name + '.has'), 'val': self.symbolic_value(t[1], name + '.val')}
        raise Unsupported('symbolic value of %s' % (t,))

    def undef_value(self, t):
        k = t[0]
        if k in ('f', 'i', 'enum', 'bool', 'ptr'):
            return UNDEF
        if k == 'sarr':
            return [self.undef_value(t[1]) for _ in range(t[2])]
        if k == 'rec':
            r = self.low.record(t[1])
            d = {}
            for i, b in enumerate(r.bases):
                d['_b%d' % i] = self.undef_value(('rec', b))
            for fn, ft in r.fields:
                d[fn] = self.undef_value(ft)
            return d
        if k == 'opt':
            return {'has': UNDEF, 'val': self.undef_value(t[1])}
        if k in ('str', 'strview'):
            return ('tokv', ())
        if k == 'ostream':
            return {'notation': num(0), 'precision': num(6), 'toks': ('tokv', ())}
        if k == 'iter':
            return UNDEF
        raise Unsupported('undef value of %s' % (t,))

    # ------------------------------------------------------------ memory
    def load(self, st, p):
        v = st.mem[p.box]
        for step in p.path:
            v = v[step]
        if p.elem:
            if not (0 <= p.off < len(v)):
                raise Unsupported('array read out of bounds')
            return v[p.off]
        if p.off != 0:
            raise Unsupported('read past a scalar object')
        return v

    def store(self, st, p, val):
        def upd(v, path):
            if not path:
                if p.elem:
                    if not (0 <= p.off < len(v)):
                        raise Unsupported('array write out of bounds')
                    nv = list(v)
                    nv[p.off] = val
                    return nv
                if p.off != 0:
                    raise Unsupported('write past a scalar object')
                return val
            step = path[0]
            nv = dict(v) if isinstance(v, dict) else list(v)
            nv[step] = upd(v[step], path[1:])
            return nv
        st.mem[p.box] = upd(st.mem[p.box], list(p.path))

    def merge_val(self, c, a, b):
        if a is b:
            return a
        if isinstance(a, dict):
            return {k: self.merge_val(c, a[k], b[k]) for k in a}
        if isinstance(a, list):
            return [self.merge_val(c, x, y) for x, y in zip(a, b)]
        if isinstance(a, tuple) and a and a[0] == 'tokv':
            return self.merge_tokv(c, a, b)
        if isinstance(a, Ptr) or isinstance(b, Ptr):
            if a == b:
                return a
            raise Unsupported('merging distinct pointers')
        if a is UNDEF or b is UNDEF:
            if a is b:
                return a
            # value defined on one path only
            return ('ite', c, a if a is not UNDEF else self.fresh('undef'), b if b is not UNDEF else self.fresh('undef'))
        if a is None or b is None:
            return a if b is None else b
        return ite(c, a, b)

    def merge_tokv(self, c, a, b):
        """Guarded token lists: both branches extend a common prefix (strings are only ever appended to)."""
        if a == b:
            return a
        ta, tb = a[1], b[1]
        n = 0
        while n < len(ta) and n < len(tb) and ta[n] == tb[n]:
            n += 1
        out = list(ta[:n])
        for g, tok in ta[n:]:
            out.append((land(c, g), tok))
        for g, tok in tb[n:]:
            out.append((land(lnot(c), g), tok))
        return ('tokv', tuple(out))

    def merge(self, c, s1, s2):
        """State equal to s1 where c holds and s2 elsewhere."""
        out = State()
        for k in set(s1.mem) | set(s2.mem):
            if k in s1.mem and k in s2.mem:
                out.mem[k] = self.merge_val(c, s1.mem[k], s2.mem[k])
            else:
                out.mem[k] = s1.mem.get(k, s2.mem.get(k))
        out.returned = ite(c, s1.returned, s2.returned)
        if s1.retval is None:
            out.retval = s2.retval
        elif s2.retval is None:
            out.retval = s1.retval
        else:
            out.retval = self.merge_val(c, s1.retval, s2.retval)
        return out

    # ------------------------------------------------------------ execution
    def call(self, f, args, st):
        """Execute function f (Func) with evaluated argument values; returns return value."""
        if f.cname in self.summaries:
            return self.summaries[f.cname](self, f, args, st)
        if self.summary_for is not None:
            sm = self.summary_for(f)
            if sm is not None:
                return sm(self, f, args, st)
        if f.body is None:
            raise Unsupported('no body for %s' % f.qualname)
        self.depth += 1
        if self.depth > 60:
            raise Unsupported('call depth')
        env = {}
        for (pn, pt), a in zip(f.params, args):
            env[pn] = self.newbox(st, a)
        for tn, tt in f.temps:
            env[tn] = self.newbox(st, self.undef_value(tt))
        saved = (st.returned, st.retval)
        st.returned, st.retval = FALSE, None
        st2 = self.block(f.body, env, st)
        # st2 is the same object (mutated) or a merged new state; copy back
        st.mem = st2.mem
        rv = st2.retval
        st.returned, st.retval = saved
        self.depth -= 1
        return rv

    def block(self, stmts, env, st):
        env = dict(env)
        for s in stmts:
            if st.returned == TRUE:
                break
            if st.returned == FALSE:
                st = self.stmt(s, env, st)
            else:
                g = st.returned
                s1 = st.copy()
                s1.returned = FALSE
                self.pc.append(lnot(g))
                s1 = self.stmt(s, env, s1)
                self.pc.pop()
                # where already returned keep st, else s1
                m = self.merge(g, st, s1)
                m.returned = lor(g, s1.returned)
                st = m
        return st

    def stmt(self, s, env, st):
        k = s[0]
        if k == 'decl':
            v = self.undef_value(s[2]) if s[3] is None else self.ev(s[3], env, st)
            env[s[1]] = self.newbox(st, v)
            return st
        if k == 'assign':
            v = self.ev(s[2], env, st)
            p = self.lval(s[1], env, st)
            self.store(st, p, v)
            return st
        if k == 'expr':
            self.ev(s[1], env, st)
            return st
        if k == 'ret':
            st.retval = None if s[1] is None else self.ev(s[1], env, st)
            st.returned = TRUE
            return st
        if k == 'if':
            c = self.tobool(self.ev(s[1], env, st))
            if c == TRUE:
                return self.block(s[2], env, st)
            if c == FALSE:
                return self.block(s[3], env, st)
            self.pc.append(c)
            s1 = self.block(s[2], env, st.copy())
            self.pc[-1] = lnot(c)
            s2 = self.block(s[3], env, st.copy())
            self.pc.pop()
            m = self.merge(c, s1, s2)
            return m
        if k == 'for':
            env = dict(env)
            for x in s[1]:
                st = self.stmt(x, env, st)
            n = 0
            while True:
                c = TRUE if s[2] is None else self.tobool(self.ev(s[2], env, st))
                if c == FALSE:
                    break
                if c != TRUE:
                    raise Unsupported('loop with symbolic trip count (use the CBMC loop contract)')
                st = self.block(s[4], env, st)
                if st.returned != FALSE:
                    raise Unsupported('return inside loop')
                for x in s[3]:
                    st = self.stmt(x, env, st)
                n += 1
                if n > 4096:
                    raise Unsupported('loop bound')
            return st
        if k == 'block':
            return self.block(s[1], env, st)
        if k == 'assert':
            c = self.tobool(self.ev(s[1], env, st))
            self.need(c, s[2])
            return st
        raise Unsupported('symex statement %s' % k)

    def tobool(self, v):
        if v is UNDEF:
            raise Unsupported('branch on indeterminate value')
        if isinstance(v, tuple) and is_boolterm(v):
            return v
        if isinstance(v, tuple):
            return cmp('!=', v, num(0))
        raise Unsupported('bool of %r' % (v,))

    def tonum(self, v):
        if isinstance(v, tuple) and is_boolterm(v):
            return ite(v, num(1), num(0))
        return v

    def lval(self, e, env, st):
        k = e[0]
        if k == 'var':
            if e[2] not in env:
                raise Unsupported('unbound variable %s' % e[2])
            return Ptr(env[e[2]], ())
        if k == 'field':
            p = self.lval(e[2], env, st)
            return self._sub(st, p, e[3])
        if k == 'index':
            p = self.lval(e[2], env, st)
            i = self.ev(e[3], env, st)
            if not is_num(i):
                raise Unsupported('symbolic array index')
            p = self._sub(st, p, None)
            return Ptr(p.box, p.path, int(i[1]), True)
        if k == 'pidx':
            p = self.ev(e[2], env, st)
            i = self.ev(e[3], env, st)
            if not is_num(i):
                raise Unsupported('symbolic pointer index')
            return Ptr(p.box, p.path, p.off + int(i[1]), p.elem)
        if k == 'deref':
            p = self.ev(e[2], env, st)
            if not isinstance(p, Ptr):
                raise Unsupported('deref of non-pointer value %r' % (p,))
            return p
        if k == 'seq':
            for s in e[2]:
                self.stmt(s, env, st)
            return self.lval(e[3], env, st)
        if k == 'asg':
            v = self.ev(e[3], env, st)
            p = self.lval(e[2], env, st)
            self.store(st, p, v)
            return p
        if k == 'call':
            # call returning a reference (lowered to pointer) used as lvalue via deref; not here
            raise Unsupported('call as lvalue')
        raise Unsupported('lvalue %s' % k)

    def _sub(self, st, p, step):
        """Descend from the object p points to: into field `step`, or (step None) stay on the array."""
        if p.elem:
            p = Ptr(p.box, p.path + (p.off,), 0, False)
        elif p.off != 0:
            raise Unsupported('member access past a scalar object')
        if step is None:
            return p
        return Ptr(p.box, p.path + (step,), 0, False)

    def ev(self, e, env, st):
        k = e[0]
        if k == 'const':
            v = e[2]
            if isinstance(v, bool):
                return TRUE if v else FALSE
            if self.mode in ('NOISY', 'LIT') and e[1][0] == 'f':
                return num(self.rnd(Fraction(v), e[1]))     # the value the literal has in its own type
            if self.const_floor is not None and e[1][0] == 'f' and self.FRANK[e[1][1]] < self.const_floor:
                return num(self.rnd(Fraction(v), e[1]))
            return num(v)
        if k in ('var', 'field', 'index', 'pidx', 'deref'):
            p = self.lval(e, env, st)
            v = self.load(st, p)
            if v is UNDEF:
                self.reads_undef.append(e)
                v = self.fresh('indet')
            return v
        if k == 'addr':
            p = self.lval(e[2], env, st)
            # pointer to array element keeps (path-to-array, off)
            return p
        if k == 'bin':
            return self.binop(e, env, st)
        if k == 'un':
            a = self.ev(e[3], env, st)
            if e[2] == '-':
                return neg(self.tonum(a))
            if e[2] == '+':
                return a
            if e[2] == '!':
                return lnot(self.tobool(a))
            raise Unsupported('unary %s' % e[2])
        if k == 'cast':
            a = self.ev(e[2], env, st)
            t = e[1]
            if t[0] == 'f':
                a = self.tonum(a)
                src0 = e[2][1]
                if src0[0] == 'f' and not is_num(a) and not self.wider_eq(t, src0):
                    # a non-constant value loses precision here; whether that is legitimate depends on the precision of the
                    # result it flows into (judged by SymCall against the result type of the function under contract)
                    self.narrowings.append((t[1], src0[1]))
                    self.narrowed_terms.append(a)
                if src0[0] in ('i', 'enum') and not is_num(a):
                    self.int_to_float.append((t[1], src0[1] if len(src0) > 1 else 'int', a))
                if self.mode == 'LIT' and is_num(a):
                    return num(self.rnd(a[1], t))
                if self.const_floor is not None and is_num(a) and self.FRANK[t[1]] < self.const_floor:
                    return num(self.rnd(a[1], t))
                if self.mode == 'NOISY':
                    if is_num(a):
                        return num(self.rnd(a[1], t))
                    src = e[2][1]
                    if src[0] == 'f' and self.wider_eq(t, src):
                        return a
                    return self.noise(a)
                return a
            if t[0] in ('i', 'enum'):
                if e[2][1][0] == 'f':
                    a = self.tonum(a)
                    if is_num(a):
                        import math
                        return num(Fraction(math.trunc(a[1])))
                    # conversion of a floating value to an integer type: truncation toward zero (range assumed to fit)
                    if not hasattr(self, '_trunc_cache'):
                        self._trunc_cache = {}
                    if a in self._trunc_cache:
                        return self._trunc_cache[a]
                    t_ = self.fresh('trunc')
                    self.assumes.append(lor(land(cmp('>=', a, num(0)), land(cmp('<=', t_, a), cmp('<', mk('-', a, t_), num(1)))),
                                            land(cmp('<', a, num(0)), land(cmp('>=', t_, a), cmp('<', mk('-', t_, a), num(1))))))
                    self.float_to_int.append(e[2][1][1] if len(e[2][1]) > 1 else 'float')
                    self._trunc_cache[a] = t_
                    return t_
                return self.tonum(a)
            if t[0] == 'bool':
                return self.tobool(a)
            raise Unsupported('cast to %s' % (t,))
        if k == 'cond':
            c = self.tobool(self.ev(e[2], env, st))
            if c == TRUE:
                return self.ev(e[3], env, st)
            if c == FALSE:
                return self.ev(e[4], env, st)
            s1, s2 = st.copy(), st.copy()
            self.pc.append(c)
            a = self.ev(e[3], env, s1)
            self.pc[-1] = lnot(c)
            b = self.ev(e[4], env, s2)
            self.pc.pop()
            m = self.merge(c, s1, s2)
            st.mem = m.mem
            return self.merge_val(c, a, b)
        if k == 'call':
            f = self.by_cname.get(e[2])
            if f is None:
                raise Unsupported('unknown callee %s' % e[2])
            args = [self.ev(a, env, st) for a in e[3]]
            return self.call(f, args, st)
        if k == 'lib':
            return self.lib(e, env, st)
        if k == 'seq':
            for s in e[2]:
                self.stmt(s, env, st)
            return self.ev(e[3], env, st)
        if k == 'sarrlit':
            return [self.ev(a, env, st) for a in e[2]]
        if k == 'optnone':
            return {'has': FALSE, 'val': self.undef_value(e[1][1])}
        if k == 'optsome':
            return {'has': TRUE, 'val': self.ev(e[2], env, st)}
        if k == 'opthas':
            return self.ev(e[2], env, st)['has']
        if k == 'optval':
            return self.ev(e[2], env, st)['val']
        if k == 'asg':
            v = self.ev(e[3], env, st)
            p = self.lval(e[2], env, st)
            self.store(st, p, v)
            return v
        if k == 'table':
            return e
        if k == 'toks':
            out = []
            for tok in e[2]:
                if tok[0] == 'LIT':
                    if tok[1] != '':
                        out.append((TRUE, ('LIT', tok[1])))
                elif tok[0] in ('NUM', 'INT'):
                    # NUM carries the numeric type PhQ::Print was instantiated for (it fixes the number of digits)
                    out.append((TRUE, (tok[0], self.tonum(self.ev(tok[1], env, st))) + tuple(tok[2:3])))
                elif tok[0] == 'ABBR':
                    out.append((TRUE, ('ABBR', tok[1], self.tonum(self.ev(tok[2], env, st)))))
                elif tok[0] == 'SUB':
                    v = self.ev(tok[1], env, st)
                    out += list(self.as_tokv(v)[1])
                else:
                    raise Unsupported('token %s' % tok[0])
            return ('tokv', tuple(out))
        raise Unsupported('symex expression %s' % k)

    def binop(self, e, env, st):
        op = e[2]
        if op == '&&':
            a = self.tobool(self.ev(e[3], env, st))
            if a == FALSE:
                return FALSE
            b = self.tobool(self.ev(e[4], env, st))
            return land(a, b)
        if op == '||':
            a = self.tobool(self.ev(e[3], env, st))
            if a == TRUE:
                return TRUE
            b = self.tobool(self.ev(e[4], env, st))
            return lor(a, b)
        a = self.ev(e[3], env, st)
        b = self.ev(e[4], env, st)
        if isinstance(a, tuple) and a and a[0] in ('iterv', 'strv'):
            eq = (a == b)
            return (TRUE if eq else FALSE) if op == '==' else (FALSE if eq else TRUE)
        if isinstance(a, Ptr) or isinstance(b, Ptr):
            return self.ptrop(op, a, b)
        if op in ('<', '<=', '>', '>=', '==', '!='):
            if is_boolterm(a) and is_boolterm(b) and op in ('==', '!='):
                eq = lor(land(a, b), land(lnot(a), lnot(b)))
                return eq if op == '==' else lnot(eq)
            return cmp(op, self.tonum(a), self.tonum(b))
        a, b = self.tonum(a), self.tonum(b)
        if op in ('+', '-', '*', '/'):
            t = e[1]
            if op == '/':
                if t[0] != 'f':
                    if is_num(a) and is_num(b) and b[1] != 0:
                        q = abs(a[1]) // abs(b[1])
                        return num(q if (a[1] >= 0) == (b[1] >= 0) else -q)
                    raise Unsupported('symbolic integer division')
                self.need(cmp('!=', b, num(0)), 'divisor non-zero')
            r = mk(op, a, b)
            if self.const_floor is not None and t[0] == 'f' and is_num(r) and self.FRANK[t[1]] < self.const_floor:
                r = num(self.rnd(r[1], t))        # constant sub-expression evaluated in a type below the floor
            if t[0] == 'f' and not is_num(r):
                self.intermediates.append(r)      # every non-constant floating result, in evaluation order (range analysis)
            if self.mode == 'NOISY' and t[0] == 'f':
                if is_num(r):
                    return num(self.rnd(r[1], t))     # constant sub-expression: exact IEEE emulation
                if (is_num(a) and a[1] in (1, -1) and op == '*') or (is_num(b) and b[1] in (1, -1) and op in ('*', '/')):
                    return r
                return self.noise(r)
            return r
        if op == '%' and is_num(a) and is_num(b):
            return num(int(a[1]) % int(b[1]))
        raise Unsupported('binary %s' % op)

    def ptrop(self, op, a, b):
        if isinstance(a, Ptr) and not isinstance(b, Ptr) and op in ('+', '-'):
            if not is_num(b):
                raise Unsupported('symbolic pointer arithmetic')
            d = int(b[1]) if op == '+' else -int(b[1])
            return Ptr(a.box, a.path, a.off + d, a.elem)
        if isinstance(a, Ptr) and isinstance(b, Ptr):
            if (a.box, a.path, a.elem) != (b.box, b.path, b.elem):
                raise Unsupported('comparison of unrelated pointers')
            return cmp(op, num(a.off), num(b.off))
        raise Unsupported('pointer op %s' % op)

    # ------------------------------------------------------------ library contracts
    def lib(self, e, env, st):
        name = e[2]
        args = [self.ev(a, env, st) for a in e[3]]
        if name == 'PI':
            if self.mode == 'NOISY':
                return self.tonum(args[0])        # the literal the code uses, rounded to its type
            return self.pi()
        if name in ('isnan', 'isinf'):
            return FALSE          # reals: every value is a finite number
        if name == 'isfinite':
            return TRUE
        if name == 'hypot':
            a_, b_ = self.tonum(args[0]), self.tonum(args[1])
            args = [mk('+', mk('*', a_, a_), mk('*', b_, b_))]
            name = 'sqrt'
        if name == 'sqrt':
            x = self.tonum(args[0])
            if is_num(x):
                import math
                r = Fraction(math.isqrt(x[1].numerator * x[1].denominator), x[1].denominator) if x[1] >= 0 else None
                if r is not None and r * r == x[1]:
                    return num(r)
            key = ('sqrt', x)
            if not hasattr(self, '_sqrt_cache'):
                self._sqrt_cache = {}
            if key in self._sqrt_cache:
                return self._sqrt_cache[key]
            r = self.fresh('sqrt')
            self.need(cmp('>=', x, num(0)), 'sqrt argument non-negative')
            self.assumes.append(land(cmp('>=', r, num(0)), cmp('==', mk('*', r, r), x)))
            out = self.noise(r) if self.mode == 'NOISY' else r
            self._sqrt_cache[key] = out
            return out
        if name == 'pow':
            x, n = self.tonum(args[0]), args[1]
            if is_num(n) and n[1].denominator == 1 and 0 <= n[1] <= 8:
                r = num(1)
                for _ in range(int(n[1])):
                    r = mk('*', r, x)
                if self.mode == 'NOISY':
                    self.libm_calls += 1
                    if is_num(r):
                        return num(self.rnd(r[1], e[1]))   # libm pow assumed correctly rounded (+1 ulp slack counted)
                    return self.noise(r)
                return r
            return self.app('pow', [x, self.tonum(n)])
        if name == 'abs':
            x = self.tonum(args[0])
            return ite(cmp('>=', x, num(0)), x, neg(x)) if not is_num(x) else num(abs(x[1]))
        if name in ('acos', 'cbrt', 'exp', 'log', 'log2', 'log10', 'asin', 'atan', 'cos', 'sin', 'tan', 'hash'):
            return self.app(name, [self.tonum(a) for a in args])
        if name.startswith('table_') or name.startswith('iter_'):
            return self.table_lib(e, args, st)
        if name.startswith('os_') or name in ('str_empty', 'setprecision'):
            return self.str_lib(e, args, st, env)
        raise Unsupported('library function %s in symex' % name)

    def table_rows(self, tbl):
        from .lower import split_targs
        tid = tbl[2]
        nm, targs = tid.split('<', 1)
        return nm, self.low.get_tables().rows(nm, tuple(x.strip() for x in split_targs(targs[:-1])))

    def item_val(self, it):
        if it[0] == 'enum':
            return num(self.low.enumconst[it[1]][2])
        if it[0] == 'str':
            return ('strv', it[1])
        return it

    def table_lib(self, e, args, st):
        name = e[2]
        if name == 'table_end':
            return ('iterv', -1)
        if name in ('table_find', 'table_at', 'table_dispatch'):
            nm, rows = self.table_rows(e[3][0])
            key = args[1]
            if not (is_num(key) or (isinstance(key, tuple) and key[0] == 'strv')):
                raise Unsupported('table lookup with symbolic key (CBMC route handles symbolic enumerators)')
            idx = -1
            for i, (k, v) in enumerate(rows):
                if self.item_val(k) == key:
                    idx = i
                    break
            if name == 'table_find':
                return ('iterv', idx)
            if idx < 0:
                self.need(FALSE, 'lookup hits: %s has no row for the key' % nm)
                return self.fresh('miss')
            if name == 'table_at':
                return self.item_val(rows[idx][1])
            g = self.low.func_for(rows[idx][1][1])
            return self.call(g, args[2:], st)
        if name in ('iter_second', 'iter_first'):
            it = args[0]
            nm, rows = self.table_rows(e[3][1])
            if not (isinstance(it, tuple) and it[0] == 'iterv'):
                raise Unsupported('symbolic iterator')
            if it[1] < 0:
                self.need(FALSE, 'lookup hits: end() iterator of %s dereferenced' % nm)
                return self.fresh('miss')
            return self.item_val(rows[it[1]][1 if name == 'iter_second' else 0])
        raise Unsupported(name)

    def as_tokv(self, v):
        if isinstance(v, tuple) and v and v[0] == 'tokv':
            return v
        if isinstance(v, tuple) and v and v[0] == 'strv':
            return ('tokv', ((TRUE, ('LIT', v[1])),) if v[1] != '' else ())
        raise Unsupported('value is not a string: %r' % (v,))

    def str_lib(self, e, args, st, env):
        name = e[2]
        if name == 'str_empty':
            tv = self.as_tokv(args[0])
            r = TRUE
            for g, tok in tv[1]:
                r = land(r, lnot(g))
            return r
        if name == 'setprecision':
            return ('prec', self.tonum(args[0]))
        if name in ('os_manip', 'os_prec', 'os_num', 'os_int', 'os_str_put', 'os_str'):
            p = args[0]
            if not isinstance(p, Ptr):
                raise Unsupported('stream pointer')
            os_ = dict(self.load(st, p))
            if name == 'os_str':
                return os_['toks']
            if name == 'os_manip':
                os_['notation'] = self.tonum(args[1])
            elif name == 'os_prec':
                os_['precision'] = self.tonum(args[1])
            elif name == 'os_num':
                os_['toks'] = ('tokv', os_['toks'][1] + ((TRUE, ('NUMF', os_['notation'], os_['precision'], self.tonum(args[1]))),))
            elif name == 'os_int':
                os_['toks'] = ('tokv', os_['toks'][1] + ((TRUE, ('INT', self.tonum(args[1]))),))
            else:
                os_['toks'] = ('tokv', os_['toks'][1] + self.as_tokv(args[1])[1])
            self.store(st, p, os_)
            return p
        raise Unsupported(name)

    def app(self, f, args):
        self.funs[f] = len(args)
        return ('app', f, tuple(args))

    def pi(self):
        if 'PI' not in self.syms:
            self.syms['PI'] = 'Real'
            p = ('sym', 'PI')
            self.assumes.append(land(cmp('<', num(Fraction('3.14159265358979323846')), p),
                                     cmp('<', p, num(Fraction('3.14159265358979323847')))))
        return ('sym', 'PI')

    # ------------------------------------------------------------ NOISY mode
    def noise(self, r):
        d = self.fresh('delta')
        self.roundings += 1
        u = num(self.u)
        self.assumes.append(land(cmp('<=', neg(u), d), cmp('<=', d, u)))
        return mk('*', r, mk('+', num(1), d))

    def rnd(self, fr, t):
        from .cemit import round_to
        return round_to(fr, t[1])

    def exact_in(self, fr, t):
        from .cemit import round_to
        try:
            return round_to(fr, t[1]) == fr
        except Unsupported:
            return False

    def wider_eq(self, t, src):
        order = {'float': 0, 'double': 1, 'long double': 2}
        return order[t[1]] >= order[src[1]]

    def round_const(self, fr, t):
        if self.exact_in(fr, t):
            return num(fr)
        return self.noise(num(fr))
