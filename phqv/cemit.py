"""IR -> C text for CBMC (IEEE mode)."""
from fractions import Fraction
from .ir import *
from .lower import tstr, cident, Unsupported

MANT = {'float': (24, -126, 127), 'double': (53, -1022, 1023), 'long double': (64, -16382, 16383)}


def round_to(fr, kind):
    """Round an exact Fraction to the given IEEE-style format (round-to-nearest-even); returns Fraction.
    'long double' is the x87 80-bit format (64-bit significand) the library actually runs with."""
    p, emin, emax = MANT[kind]
    if fr == 0:
        return Fraction(0)
    s = -1 if fr < 0 else 1
    a = abs(fr)
    # exponent e with 2^e <= a < 2^(e+1)
    e = a.numerator.bit_length() - a.denominator.bit_length()
    if Fraction(2) ** e > a:
        e -= 1
    elif Fraction(2) ** (e + 1) <= a:
        e += 1
    e = max(e, emin)
    q = Fraction(2) ** (e - p + 1)     # ulp
    n = a / q
    fl = n.numerator // n.denominator
    rem = n - fl
    if rem > Fraction(1, 2) or (rem == Fraction(1, 2) and fl % 2 == 1):
        fl += 1
    r = fl * q
    if r >= Fraction(2) ** (emax + 1):
        raise Unsupported('literal overflows %s' % kind)
    return s * r


def hexfloat(fr, kind):
    """C hex-float literal of an exactly representable Fraction."""
    suffix = {'float': 'f', 'double': '', 'long double': 'L'}[kind]
    if fr == 0:
        return '0.0' + suffix
    s = '-' if fr < 0 else ''
    a = abs(fr)
    # a = m * 2^k with m odd integer
    num, den = a.numerator, a.denominator
    k = 0
    assert den & (den - 1) == 0, 'not dyadic'
    k = -(den.bit_length() - 1)
    while num % 2 == 0:
        num //= 2
        k += 1
    return '%s0x%xp%d%s' % (s, num, k, suffix)


class CEmitter:
    def __init__(self, low, float_map=None):
        self.low = low
        self.need_types = []     # ordered type declarations
        self._seen_types = set()
        self.lib_used = set()
        self.ld_standin = False
        self.helpers = {}        # name -> C text of generated library-contract helpers
        self.abstract_sqrt = False   # emit sqrt as its (assumed) libm contract instead of CBMC's bit-precise model
        self.tables_used = {}    # tid -> set of helper kinds
        self.strings = []        # interned string_view values (C representation: index)

    # ---------------------------------------------------------------- types
    def ctype(self, t):
        k = t[0]
        if k == 'f':
            return t[1]
        if k == 'i':
            base = {8: 'char', 16: 'short', 32: 'int', 64: 'long'}[t[1]]
            return ('signed ' if t[2] else 'unsigned ') + base
        if k == 'bool':
            return '_Bool'
        if k == 'void':
            return 'void'
        if k == 'enum':
            e = self.low.enums[t[1]]
            return self.ctype(e.underlying)
        if k == 'ptr':
            return self.ctype(t[1]) + ' *'
        if k == 'rec':
            self.declare_type(t)
            return 'struct ' + self.low.record(t[1]).cname
        if k == 'sarr':
            self.declare_type(t)
            return 'struct A_%s_%d' % (cident(tstr(t[1])), t[2])
        if k == 'opt':
            self.declare_type(t)
            return 'struct O_%s' % cident(tstr(t[1]))
        if k == 'vec':
            self.declare_type(t)
            return 'struct V_%s' % cident(tstr(t[1]))
        if k == 'iter':
            return 'int'
        if k == 'strview':
            return 'int'
        raise Unsupported('C type for %s' % (t,))

    def declare_type(self, t):
        key = tstr(t)
        if key in self._seen_types:
            return
        self._seen_types.add(key)
        k = t[0]
        if k == 'rec':
            r = self.low.record(t[1])
            lines = []
            for i, b in enumerate(r.bases):
                lines.append('  %s _b%d;' % (self.ctype(('rec', b)), i))
            for fn, ft in r.fields:
                lines.append('  %s %s;' % (self.ctype(ft), fn))
            if not lines:
                lines.append('  char _empty;')
            self.need_types.append('/* %s */\nstruct %s {\n%s\n};' % (r.canon, r.cname, '\n'.join(lines)))
        elif k == 'sarr':
            et = self.ctype(t[1])
            self.need_types.append('struct A_%s_%d { %s e[%d]; };' % (cident(tstr(t[1])), t[2], et, t[2]))
        elif k == 'opt':
            et = self.ctype(t[1])
            self.need_types.append('struct O_%s { _Bool has; %s val; };' % (cident(tstr(t[1])), et))
        elif k == 'vec':
            et = self.ctype(t[1])
            self.need_types.append('struct V_%s { %s *data; unsigned long size; };' % (cident(tstr(t[1])), et))

    # ---------------------------------------------------------------- expressions
    def const(self, e):
        t = e[1]
        v = e[2]
        if t[0] == 'f':
            fr = round_to(Fraction(v), t[1])
            if t[1] == 'long double':
                self.ld_standin = True
            return hexfloat(fr, t[1])
        if t[0] == 'bool':
            return '1' if v else '0'
        if t[0] == 'i':
            suf = ''
            if t[1] == 64:
                suf = 'L' if t[2] else 'UL'
            elif not t[2]:
                suf = 'U'
            return '%d%s' % (v, suf) if v >= 0 else '(%d%s)' % (v, suf)
        if t[0] == 'enum':
            return '((%s)%d)' % (self.ctype(t), v)
        if t[0] == 'ptr':
            return '((%s)0)' % self.ctype(t)
        raise Unsupported('constant of type %s' % (t,))

    def fold_cast(self, t, a):
        """Constant-fold numeric casts of literals exactly (x87 long double literals narrowed to
        float/double are rounded twice, as the compiler does)."""
        if a[0] == 'const' and t[0] == 'i' and a[1][0] in ('i', 'bool') and not isinstance(a[2], bool):
            v = int(a[2])
            if t[2] and -(1 << (t[1] - 1)) <= v < (1 << (t[1] - 1)) or (not t[2] and 0 <= v < (1 << t[1])):
                return ('const', t, v)
        if a[0] == 'const' and t[0] == 'f' and a[1][0] in ('f', 'i', 'bool'):
            v = Fraction(a[2])
            if a[1][0] == 'f':
                v = round_to(v, a[1][1])
            return ('const', t, round_to(v, t[1]))
        if a[0] == 'cast':
            inner = self.fold_cast(a[1], a[2])
            if inner is not None and inner[0] == 'const':
                return self.fold_cast(t, inner)
        return None

    def ex(self, e):
        k = e[0]
        if k == 'const':
            return self.const(e)
        if k == 'var':
            return e[2]
        if k == 'field':
            b = e[2]
            if b[0] == 'deref':
                return '%s->%s' % (self.pex(b[2]), e[3])
            return '%s.%s' % (self.pex(b), e[3])
        if k == 'index':
            b = e[2]
            if b[0] == 'deref':
                return '%s->e[%s]' % (self.pex(b[2]), self.ex(e[3]))
            return '%s.e[%s]' % (self.pex(b), self.ex(e[3]))
        if k == 'pidx':
            return '%s[%s]' % (self.pex(e[2]), self.ex(e[3]))
        if k == 'deref':
            return '(*%s)' % self.pex(e[2])
        if k == 'addr':
            return '(&%s)' % self.pex(e[2])
        if k == 'bin':
            op = e[2]
            return '(%s %s %s)' % (self.ex(e[3]), op, self.ex(e[4]))
        if k == 'un':
            return '(%s%s)' % (e[2], self.pex(e[3]))
        if k == 'cast':
            fc = self.fold_cast(e[1], e[2])
            if fc is not None:
                return self.const(fc)
            return '((%s)%s)' % (self.ctype(e[1]), self.pex(e[2]))
        if k == 'cond':
            return '(%s ? %s : %s)' % (self.ex(e[2]), self.ex(e[3]), self.ex(e[4]))
        if k == 'call':
            return '%s(%s)' % (e[2], ', '.join(self.ex(a) for a in e[3]))
        if k == 'lib':
            return self.lib(e)
        if k == 'seq':
            parts = []
            for s in e[2]:
                if s[0] == 'expr':
                    parts.append(self.ex(s[1]))
                elif s[0] == 'assign':
                    parts.append('%s = %s' % (self.ex(s[1]), self.ex(s[2])))
                else:
                    raise Unsupported('statement %s inside expression' % s[0])
            parts.append(self.ex(e[3]))
            return '(' + ', '.join(parts) + ')'
        if k == 'sarrlit':
            return '((%s){{%s}})' % (self.ctype(e[1]), ', '.join(self.ex(a) for a in e[2]))
        if k == 'optnone':
            return '((%s){0})' % self.ctype(e[1])
        if k == 'optsome':
            return '((%s){1, %s})' % (self.ctype(e[1]), self.ex(e[2]))
        if k == 'opthas':
            return '%s.has' % self.pex(e[2])
        if k == 'optval':
            return '%s.val' % self.pex(e[2])
        if k == 'asg':
            return '(%s = %s)' % (self.ex(e[2]), self.ex(e[3]))
        raise Unsupported('C expression for %s' % k)

    def pex(self, e):
        s = self.ex(e)
        if e[0] in ('var', 'field', 'index', 'call', 'pidx') or s.startswith('('):
            return s
        return '(' + s + ')'

    def lib(self, e):
        name, t, args = e[2], e[1], e[3]
        self.lib_used.add((name, tstr(t)))
        if name == 'PI':
            return self.ex(args[0])
        suf = {'float': 'f', 'double': '', 'long double': 'l'}.get(t[1] if t[0] == 'f' else 'double', '')
        if name == 'sqrt' and self.abstract_sqrt and t[0] == 'f':
            tag = {'float': 'f', 'double': 'd', 'long double': 'ld'}[t[1]]
            fn = 'phqv_sqrt_%s' % tag
            uf = '__CPROVER_uninterpreted_sqrt_%s' % tag
            ct = self.ctype(t)
            self.lib_used.add(('decl', uf, ct, (ct,)))
            self.helpers[fn] = ('/* libm sqrt replaced by its contract (assumed: correctly rounded): r >= 0, r > 0 for x > 0, monotone bounds */\n'
                                'static %s %s(%s x) {\n' + ('  __CPROVER_assert(x >= 0, "sqrt argument non-negative");\n' if getattr(self, 'domain_asserts', True) else '') + '  %s r = %s(x);\n'
                                '  __CPROVER_assume(r >= 0 && (x > 0 ? r > 0 : r == 0) && (x >= 1 ? (r >= 1 && r <= x) : (r <= 1 && r >= x)));\n  return r;\n}\n') % (ct, fn, ct, ct, uf)
            return '%s(%s)' % (fn, self.ex(args[0]))
        if name == 'sqrt':
            return 'sqrt%s(%s)' % (suf, self.ex(args[0]))
        if name == 'acos' and t[0] == 'f':
            tag = {'float': 'f', 'double': 'd', 'long double': 'ld'}[t[1]]
            fn = 'phqv_acos_%s' % tag
            uf = '__CPROVER_uninterpreted_acos_%s' % tag
            ct = self.ctype(t)
            from fractions import Fraction as _F
            piup = hexfloat(round_to(_F('3.14159265358979323846264338327950288419716939937510'), t[1]), t[1])
            self.lib_used.add(('decl', uf, ct, (ct,)))
            self.helpers[fn] = ('/* libm acos: domain checked here; range [0, pi rounded to %s] and NaN-freedom on [-1,1] are the assumed libm contract */\n'
                                'static %s %s(%s x) {\n' + ('  __CPROVER_assert(x >= -1 && x <= 1, "acos argument in [-1,1] and not NaN");\n' if getattr(self, 'domain_asserts', True) else '') +
                                '  %s r = %s(x);\n  __CPROVER_assume(r >= 0 && r <= %s);\n  return r;\n}\n') % (t[1], ct, fn, ct, ct, uf, piup)
            return '%s(%s)' % (fn, self.ex(args[0]))
        if name in ('isnan', 'isinf', 'isfinite'):
            at = args[0][1]
            sfx = {'float': 'f', 'double': 'd', 'long double': 'ld'}[at[1] if at[0] == 'f' else 'double']
            return '__CPROVER_%s%s(%s)' % (name, sfx, self.ex(args[0]))
        if name == 'hypot' and t[0] == 'f':
            tag = {'float': 'f', 'double': 'd', 'long double': 'ld'}[t[1]]
            fn = 'phqv_hypot_%s' % tag
            uf = '__CPROVER_uninterpreted_hypot_%s' % tag
            ct = self.ctype(t)
            fabs_ = 'fabs' + suf
            self.lib_used.add(('decl', uf, ct, (ct, ct)))
            self.helpers[fn] = ('/* libm hypot replaced by its (assumed) contract: max(|x|,|y|) <= r <= |x| + |y| for finite arguments */\n'
                                'static %s %s(%s x, %s y) {\n  %s r = %s(x, y);\n'
                                '  __CPROVER_assume(r >= %s(x) && r >= %s(y) && r <= %s(x) + %s(y));\n  return r;\n}\n') % (ct, fn, ct, ct, ct, uf, fabs_, fabs_, fabs_, fabs_)
            return '%s(%s, %s)' % (fn, self.ex(args[0]), self.ex(args[1]))
        if name == 'abs' and t[0] == 'f':
            return 'fabs%s(%s)' % (suf, self.ex(args[0]))
        if name in ('table_find', 'table_end', 'table_at', 'iter_second', 'iter_first', 'table_dispatch'):
            return self.table_lib(e)
        if name in ('vec_data',):
            return '%s->data' % self.pex(args[0])
        if name in ('vec_size',):
            return '%s->size' % self.pex(args[0])
        if name == 'vec_copy':
            et = t[1]
            vt = self.ctype(t)
            fn = 'phqv_vec_copy_%s' % cident(tstr(et))
            self.helpers[fn] = ('/* std::vector copy construction (library contract): fresh storage, same size, equal elements.  Only the element with\n'
                                '   the ghost index phqv_k is tracked; every other element of the copy is left arbitrary (sound for obligations about element phqv_k). */\n'
                                'unsigned long phqv_k;\n'
                                'static %s %s(const %s *src) {\n  %s r;\n  r.size = src->size;\n  r.data = (%s *)__CPROVER_allocate(src->size * sizeof(%s), 0);\n'
                                '  if (phqv_k < src->size) r.data[phqv_k] = src->data[phqv_k];\n  return r;\n}\n') % (vt, fn, vt, vt, self.ctype(et), self.ctype(et))
            return '%s(%s)' % (fn, self.ex(args[0]))
        if name == 'vec_elem':
            et = e[1][1]
            vt = self.ctype(('vec', et))
            fn = 'phqv_vec_elem_%s' % cident(tstr(et))
            self.helpers[fn] = ('/* std::vector::operator[] / at / front / back: precondition index < size() */\n'
                                'static %s *%s(%s *v, unsigned long n) {\n  __CPROVER_assert(n < v->size, "std::vector element access: index < size()");\n  return v->data + n;\n}\n') % (
                                    self.ctype(et), fn, vt)
            return '%s(%s, %s)' % (fn, self.ex(args[0]), self.ex(args[1]))
        if name == 'hash':
            at = args[0][1]
            tag = {'float': 'f', 'double': 'd', 'long double': 'ld'}.get(at[1] if at[0] == 'f' else '', 'i%d' % (at[1] if at[0] == 'i' else 0))
            fn = '__CPROVER_uninterpreted_hash_%s' % tag
            self.lib_used.add(('decl', fn, 'unsigned long', (self.ctype(at),)))
            a = self.ex(args[0])
            if at[0] == 'f':
                # libstdc++ std::hash<floating>: 0 for +0 and -0, else a function of the object representation
                # (assumed contract: equal non-zero values of the same type have equal representations)
                return '%s((%s == 0) ? (%s)0 : %s)' % (fn, a, self.ctype(at), a)
            return '%s(%s)' % (fn, a)
        tag = {'float': 'f', 'double': 'd', 'long double': 'ld'}.get(t[1] if t[0] == 'f' else '', 'x')
        fn = '__CPROVER_uninterpreted_%s_%s' % (name, tag)
        self.lib_used.add(('decl', fn, self.ctype(t), tuple(self.ctype(a[1]) for a in args)))
        return '%s(%s)' % (fn, ', '.join(self.ex(a) for a in args))

    # ---------------------------------------------------------------- tables
    def tid_ident(self, tid):
        return cident(tid)

    def table_lib(self, e):
        name, t, args = e[2], e[1], e[3]
        if name == 'table_end':
            return '(-1)'
        tbl = args[0] if name in ('table_find', 'table_at', 'table_dispatch') else args[1]
        tid = tbl[2]
        self.tables_used.setdefault(tid, set()).add(name)
        idn = self.tid_ident(tid)
        if name == 'table_find':
            self.tables_used[tid].add('table_find')
            return 'phqv_find_%s(%s)' % (idn, self.ex(args[1]))
        if name == 'table_at':
            self.tables_used[tid].update(('table_find', 'iter_second'))
            return 'phqv_at_%s(%s)' % (idn, self.ex(args[1]))
        if name == 'iter_second':
            return 'phqv_second_%s(%s)' % (idn, self.ex(args[0]))
        if name == 'iter_first':
            return 'phqv_first_%s(%s)' % (idn, self.ex(args[0]))
        if name == 'table_dispatch':
            self.tables_used[tid].add('table_find')
            return 'phqv_dispatch_%s(%s)' % (idn, ', '.join(self.ex(a) for a in args[1:]))
        raise Unsupported(name)

    def intern(self, s):
        if s not in self.strings:
            self.strings.append(s)
        return self.strings.index(s)

    def item_c(self, it, T):
        if it[0] == 'enum':
            q, nm, v = self.low.enumconst[it[1]]
            return '((%s)%d)' % (self.ctype(('enum', q)), v), ('enum', q)
        if it[0] == 'str':
            return '%d /* "%s" */' % (self.intern(it[1]), it[1].replace('*/', '* /')), ('strview',)
        raise Unsupported('table item %s' % (it,))

    def table_helpers(self):
        from .lower import split_targs
        T = self.low.get_tables()
        protos, bodies = [], []
        for tid in sorted(self.tables_used):
            nm, targs = tid.split('<', 1)
            args = tuple(x.strip() for x in split_targs(targs[:-1]))
            rows = T.rows(nm, args)
            idn = self.tid_ident(tid)
            kinds = self.tables_used[tid]
            kt, vt0 = T.key_value_types(nm, args)
            KT = self.ctype(kt)
            k0 = '((%s)0)' % KT
            fn = ['static int phqv_find_%s(%s k) {' % (idn, KT)]
            for i, (k, v) in enumerate(rows):
                fn.append('  if (k == %s) return %d;' % (self.item_c(k, T)[0], i))
            fn.append('  return -1;\n}')
            protos.append('static int phqv_find_%s(%s k);' % (idn, KT))
            bodies.append('\n'.join(fn))
            if rows and rows[0][1][0] == 'func':
                g0 = self.low.func_for(rows[0][1][1])
                ps = ', '.join('%s %s' % (self.ctype(t), n) for n, t in g0.params)
                an = ', '.join(n for n, t in g0.params)
                fn = ['static void phqv_dispatch_%s(%s k, %s) {' % (idn, KT, ps), '  int i = phqv_find_%s(k);' % idn,
                      '  __CPROVER_assert(i >= 0, "lookup hits: %s.find(k)->second dereferences a valid iterator");' % nm]
                for i, (k, v) in enumerate(rows):
                    g = self.low.func_for(v[1])
                    fn.append('  if (i == %d) { %s(%s); return; }' % (i, g.cname, an))
                fn.append('}')
                protos.append('static void phqv_dispatch_%s(%s k, %s);' % (idn, KT, ps))
                bodies.append('\n'.join(fn))
            else:
                if vt0[0] == 'fn':
                    continue
                VT = self.ctype(vt0)
                v0 = '((%s)0)' % VT
                fn = ['static %s phqv_second_%s(int i) {' % (VT, idn),
                      '  __CPROVER_assert(i >= 0 && i < %d, "lookup hits: iterator of %s dereferenced is not end()");' % (len(rows), nm)]
                for i, (k, v) in enumerate(rows):
                    fn.append('  if (i == %d) return %s;' % (i, self.item_c(v, T)[0]))
                fn.append('  return %s;\n}' % v0)
                protos.append('static %s phqv_second_%s(int i);' % (VT, idn))
                bodies.append('\n'.join(fn))
                fn = ['static %s phqv_first_%s(int i) {' % (KT, idn),
                      '  __CPROVER_assert(i >= 0 && i < %d, "lookup hits: iterator of %s dereferenced is not end()");' % (len(rows), nm)]
                for i, (k, v) in enumerate(rows):
                    fn.append('  if (i == %d) return %s;' % (i, self.item_c(k, T)[0]))
                fn.append('  return %s;\n}' % k0)
                protos.append('static %s phqv_first_%s(int i);' % (KT, idn))
                bodies.append('\n'.join(fn))
                fn = ['static %s phqv_at_%s(%s k) {' % (VT, idn, KT), '  int i = phqv_find_%s(k);' % idn,
                      '  __CPROVER_assert(i >= 0, "map::at key present: %s.at(k) does not throw std::out_of_range");' % nm,
                      '  return phqv_second_%s(i);\n}' % idn]
                protos.append('static %s phqv_at_%s(%s k);' % (VT, idn, KT))
                bodies.append('\n'.join(fn))
        return '\n'.join(protos) + '\n', '\n\n'.join(bodies) + '\n'

    # ---------------------------------------------------------------- statements
    def st(self, s, ind):
        p = '  ' * ind
        k = s[0]
        if k == 'decl':
            if s[3] is None:
                return ['%s%s %s;' % (p, self.ctype(s[2]), s[1])]
            return ['%s%s %s = %s;' % (p, self.ctype(s[2]), s[1], self.ex(s[3]))]
        if k == 'assign':
            return ['%s%s = %s;' % (p, self.ex(s[1]), self.ex(s[2]))]
        if k == 'expr':
            return ['%s%s;' % (p, self.ex(s[1]))]
        if k == 'ret':
            return ['%sreturn%s;' % (p, '' if s[1] is None else ' ' + self.ex(s[1]))]
        if k == 'if':
            out = ['%sif (%s) {' % (p, self.ex(s[1]))]
            for x in s[2]:
                out += self.st(x, ind + 1)
            if s[3]:
                out.append(p + '} else {')
                for x in s[3]:
                    out += self.st(x, ind + 1)
            out.append(p + '}')
            return out
        if k == 'for':
            out = [p + '{']
            for x in s[1]:
                out += self.st(x, ind + 1)
            cond = self.ex(s[2]) if s[2] is not None else '1'
            out.append('%s  while (%s)' % (p, cond))
            lc = s[5] if len(s) > 5 else None
            if not lc:
                lc = getattr(self, 'loop_annot', {}).get(getattr(self, '_cur_fn', None))
            if lc:
                for c in lc:
                    out.append('%s    %s' % (p, c))
            out.append('%s  {' % p)
            for x in s[4]:
                out += self.st(x, ind + 2)
            for x in s[3]:
                out += self.st(x, ind + 2)
            out.append('%s  }' % p)
            out.append(p + '}')
            return out
        if k == 'block':
            out = [p + '{']
            for x in s[1]:
                out += self.st(x, ind + 1)
            out.append(p + '}')
            return out
        if k == 'assert':
            return ['%s__CPROVER_assert(%s, "%s");' % (p, self.ex(s[1]), s[2])]
        raise Unsupported('C statement for %s' % k)

    # ---------------------------------------------------------------- functions
    def proto(self, f):
        ps = ', '.join('%s %s' % (self.ctype(t), n) for n, t in f.params) or 'void'
        return '%s %s(%s)' % (self.ctype(f.ret), f.cname, ps)

    def func_text(self, f, contract=None, body=True, loop_contracts=None):
        lines = ['/* %s  [%s:%s] */' % (f.qualname, f.loc[0], f.loc[1])]
        head = self.proto(f)
        if not body:
            if contract:
                return '\n'.join(lines + [head] + contract) + ';'
            return '\n'.join(lines + [head + ';'])
        lines.append(head)
        if contract:
            lines += contract
        lines.append('{')
        # ghost statements (specification only) requested for this function by the obligation being generated
        for g in getattr(self, 'prologue', {}).get(f.cname, ()):
            lines.append('  /* ghost */ ' + g)
        for n, t in f.temps:
            lines.append('  %s %s;' % (self.ctype(t), n))
        self._cur_fn = f.cname
        for s in f.body:
            lines += self.st(s, 1)
        self._cur_fn = None
        lines.append('}')
        return '\n'.join(lines)

    def closure(self, roots):
        """Functions reachable from roots through calls, callee-first order."""
        order, seen = [], set()

        def visit(f):
            if f.node['id'] in seen:
                return
            seen.add(f.node['id'])
            for cid in sorted(f.callees):
                visit(self.low.funcs[cid])
            order.append(f)
        for r in roots:
            visit(r)
        return order

    def unit(self, roots, contracts=None, bodyless=(), extra=''):
        """A complete C translation unit with the given root functions and everything they call.
        contracts: {cname: [clause strings]}; bodyless: cnames emitted as declarations only."""
        contracts = contracts or {}
        fs = self.closure(roots)
        bodies = []
        protos = []
        for f in fs:
            if f.body is None:
                continue
            protos.append(self.proto(f) + ';')
        for f in fs:
            if f.body is None:
                continue
            if f.cname in bodyless:
                continue
            else:
                bodies.append(self.func_text(f, contracts.get(f.cname)))
        decls = []
        for item in sorted(x for x in self.lib_used if x[0] == 'decl'):
            _, fn, rt, ats = item
            decls.append('%s %s(%s);' % (rt, fn, ', '.join(ats)))
        hdr = ['#include <math.h>', '#include <stddef.h>']
        tp, tb = self.table_helpers() if self.tables_used else ('', '')
        tb = ''.join(self.helpers[k] for k in sorted(self.helpers)) + tb
        return '\n'.join(hdr) + '\n' + '\n'.join(self.need_types) + '\n' + '\n'.join(decls) + '\n' + \
            '\n'.join(protos) + '\n' + tp + extra + '\n' + tb + '\n' + '\n\n'.join(bodies) + '\n'
