"""Helpers for REAL / NOISY obligations: symbolic call of a lowered function and discharge through z3."""
import os
from .symex import SymEx, State, Ptr, TRUE, FALSE, land, lnot, lor, cmp, num, mk, UNDEF
from . import smt
from .core import Ob
from .lower import Unsupported, tstr


def leaves(v):
    """Scalar leaves of a symbolic value in declaration order (bases first, then fields; arrays in order)."""
    if isinstance(v, dict):
        out = []
        for k in v:
            out += leaves(v[k])
        return out
    if isinstance(v, list):
        out = []
        for x in v:
            out += leaves(x)
        return out
    return [v]


def _canon_fresh(terms):
    """Terms with the executor's fresh symbols (sqrt!3, undef!7, ...) renamed in order of first appearance, so that two
    executions with different symbol counters can be compared structurally."""
    ren = {}

    def go(t):
        if isinstance(t, tuple):
            if len(t) == 2 and t[0] == 'sym' and isinstance(t[1], str) and '!' in t[1]:
                if t[1] not in ren:
                    ren[t[1]] = '%s#%d' % (t[1].split('!')[0], len(ren))
                return ('sym', ren[t[1]])
            return tuple(go(x) for x in t)
        if isinstance(t, list):
            return [go(x) for x in t]
        return t
    return [go(t) for t in terms]


class SymCall:
    """Result of executing function f on fully symbolic arguments."""

    def __init__(self, low, f, mode='REAL', u=None, summaries=None, names=None, symex=None, state=None, args=None):
        self.f = f
        S = symex or SymEx(low, mode=mode, unit_roundoff=u, summaries=summaries)
        st = state or State()
        self.S, self.st = S, st
        self.pre = {}      # param name -> symbolic value before the call (pointee for pointers)
        self.boxes = {}
        call_args = []
        for i, (pn, pt) in enumerate(f.params):
            nm = (names or {}).get(pn, pn)
            if args is not None and pn in args:
                v = args[pn]
                if pt[0] == 'ptr':
                    b = S.newbox(st, v)
                    self.boxes[pn] = b
                    self.pre[pn] = v
                    call_args.append(Ptr(b, ()))
                else:
                    self.pre[pn] = v
                    call_args.append(v)
                continue
            if pt[0] == 'ptr':
                if f.kind == 'ctor' and i == 0:
                    v = S.undef_value(pt[1])
                else:
                    v = S.symbolic_value(pt[1], nm)
                b = S.newbox(st, v)
                self.boxes[pn] = b
                self.pre[pn] = v
                call_args.append(Ptr(b, ()))
            else:
                v = S.symbolic_value(pt, nm)
                self.pre[pn] = v
                call_args.append(v)
        n0 = len(S.narrowings)
        snap = (S.nsym, dict(getattr(S, '_sqrt_cache', {})), dict(getattr(S, '_trunc_cache', {})))     # for the constant audit
        self.ret = S.call(f, call_args, st)
        # precision audit: no value may be narrowed below the numeric type of the result it contributes to
        RANK = {'float': 0, 'double': 1, 'long double': 2}
        try:
            from . import replay as _rp
            rt = ('rec', f.record) if f.kind == 'ctor' else (f.ret[1] if f.ret[0] in ('ptr', 'ref') else f.ret)
            fl = [lt[1] for lt in _rp.leaf_types(low, rt) if lt[0] == 'f'] if rt != ('void',) else []
            if not fl and f.kind == 'method' and f.ret == ('void',):
                st_t = f.params[0][1]
                fl = [lt[1] for lt in _rp.leaf_types(low, st_t[1] if st_t[0] == 'ptr' else st_t) if lt[0] == 'f']
        except Exception:
            fl = []
        if not fl and f.ret == ('bool',):
            # predicates (comparison operators): judged against the widest floating type among the arguments
            try:
                al = []
                for pn, pt in f.params:
                    al += [lt[1] for lt in _rp.leaf_types(low, pt[1] if pt[0] in ('ptr', 'ref') else pt) if lt[0] == 'f']
                fl = [max(al, key=lambda x: RANK[x])] if al else []
            except Exception:
                fl = []
        if fl:
            floor = min(RANK[x] for x in fl)
            for to, frm in S.narrowings[n0:]:
                if RANK[to] < floor:
                    S.narrow_bad.append((to, frm, f.qualname, [k for k, v in RANK.items() if v == floor][0]))
            self._audit_floor = floor
        if isinstance(self.ret, Ptr):
            self.ret_ptr = self.ret
            self.ret = S.load(st, self.ret)
        self.post = {pn: st.mem[b] for pn, b in self.boxes.items()}
        # constant audit (only meaningful in exact mode and when a narrower type exists): a second execution in which
        # constants of narrower types are evaluated in their own type must give the same result
        floor = getattr(self, '_audit_floor', 0)
        # (skipped when callee summaries with their own bookkeeping are installed: re-running them would disturb it)
        if floor > 0 and S.mode == 'REAL' and getattr(S, 'const_floor', None) is None and not getattr(S, 'summaries', None):
            try:
                S2 = SymEx(low, mode='REAL', const_floor=floor, summaries=getattr(S, 'summaries', None), summary_for=getattr(S, 'summary_for', None))
                # same starting point as the exact run: fresh-symbol counter and the square roots / truncations already named
                S2.nsym, S2._sqrt_cache, S2._trunc_cache = snap[0], dict(snap[1]), dict(snap[2])
                sc2 = SymCall.__new__(SymCall)
                sc2._shadow(low, f, S2, names, args)
                a_, b_ = _canon_fresh(self._result_leaves(f)), _canon_fresh(sc2._result_leaves(f))
                if len(a_) == len(b_) and a_ != b_:
                    S.narrow_bad.append(('a narrower type (a constant sub-expression)', 'constant', f.qualname, [k for k, v in RANK.items() if v == floor][0]))
            except Exception:
                pass


    def _shadow(self, low, f, S, names, args=None):
        """Re-execute f in executor S with the same (naming of the) arguments (used by the constant audit)."""
        st = State()
        self.f, self.S, self.st, self.pre, self.boxes = f, S, st, {}, {}
        call_args = []
        for i, (pn, pt) in enumerate(f.params):
            nm = (names or {}).get(pn, pn)
            if args is not None and pn in args:
                v = args[pn]
                if pt[0] == 'ptr':
                    b = S.newbox(st, v)
                    self.boxes[pn], self.pre[pn] = b, v
                    call_args.append(Ptr(b, ()))
                else:
                    self.pre[pn] = v
                    call_args.append(v)
                continue
            if pt[0] == 'ptr':
                v = S.undef_value(pt[1]) if (f.kind == 'ctor' and i == 0) else S.symbolic_value(pt[1], nm)
                b = S.newbox(st, v)
                self.boxes[pn], self.pre[pn] = b, v
                call_args.append(Ptr(b, ()))
            else:
                v = S.symbolic_value(pt, nm)
                self.pre[pn] = v
                call_args.append(v)
        self.ret = S.call(f, call_args, st)
        if isinstance(self.ret, Ptr):
            self.ret = S.load(st, self.ret)
        self.post = {pn: st.mem[b] for pn, b in self.boxes.items()}

    def _result_leaves(self, f):
        out = []
        if f.kind == 'ctor':
            out += leaves(self.post[f.params[0][0]])
        elif self.ret is not None:
            out += leaves(self.ret)
        for pn, v in self.post.items():
            if not (f.kind == 'ctor' and pn == f.params[0][0]):
                out += leaves(v)
        return out

    def input_syms(self):
        out = []
        for v in self.pre.values():
            for l in leaves(v):
                if isinstance(l, tuple) and l[0] == 'sym':
                    out.append(l[1])
        return out


def conj(terms):
    r = TRUE
    for t in terms:
        r = land(r, t)
    return r


def eqs(xs, ys):
    assert len(xs) == len(ys), (len(xs), len(ys))
    return [cmp('==', x, y) for x, y in zip(xs, ys)]


class RealTask:
    def __init__(self, check, name, S, goal, assumes=(), function=None, loc=None, mode='REAL', inputs=(),
                 text=None, timeout=60, replay=None):
        self.ob = Ob(name, mode, function, loc)
        self.ob.replay = replay
        self.check = check
        self.assumes = list(S.assumes if S is not None else []) + list(assumes)
        self.goal = goal
        self.inputs = list(inputs)
        self.timeout = timeout
        self.ob.text = text
        self.S = S

    def run(self):
        ob = self.ob
        try:
            bad = getattr(self.S, 'narrow_bad', None) if self.S is not None else None
            if bad:
                to, frm, fn, res = bad[0]
                ob.status, ob.backend = 'failed', 'phqv symex (precision audit)'
                ob.detail = 'a %s value is narrowed to %s inside %s on its way into a %s result (for a predicate: before it is compared): the result cannot have the precision of its type' % (frm, to, fn, res)
                return ob
            if self.goal == TRUE:
                ob.status, ob.backend, ob.detail = 'discharged', 'phqv-simplifier', 'goal simplified to true'
                return ob
            txt, syms, uf = smt.query(self.assumes, self.goal)
            if ob.text is None:
                ob.text = txt[-1200:]
            path = os.path.join(self.check.work, 'smt', ob.name.replace('/', '_').replace(' ', '_')[:150])
            os.makedirs(os.path.dirname(path), exist_ok=True)
            status, model, dt, solver, fn = smt.run_solver(txt, path, self.inputs or syms[:40], timeout=self.timeout)
            ob.seconds = dt
            if status == 'unsat':
                ob.status, ob.backend = 'discharged', solver
            elif status == 'sat':
                ob.status, ob.backend, ob.cex = 'failed', solver, model
                ob.detail = 'counterexample from %s (%s)' % (solver, fn)
            else:
                ob.status = 'undecided'
                ob.detail = 'solver answers: %s' % (model,)
        except Exception as e:   # machinery fault, never a violation
            ob.status = 'error'
            ob.detail = '%s: %s' % (type(e).__name__, e)
        return ob


def vacuity_task(check, name, S, assumes):
    """The assumptions alone must be satisfiable (goal 'false' must NOT be provable)."""
    t = RealTask(check, name, S, FALSE, assumes, mode='REAL')
    return t
