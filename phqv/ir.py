"""Lowered IR shared by the C emitter (CBMC route) and the symbolic executor (SMT route).

Types (tuples):
  ('f', 'float'|'double'|'long double')   ('i', bits, signed)   ('bool',)   ('void',)
  ('enum', qualname)     ('rec', canonical-name)    ('sarr', T, N)  (std::array<T,N>)
  ('opt', T)             ('ptr', T)                 ('ref', T) (declared types only; lowered to ptr)
  ('str',) ('strview',) ('ostream',) ('vec', T)     ('carr', T, N) raw array (only inside sarr)

Expressions (tuples, element 1 is always the type):
  ('const', T, value)            value: int | Fraction | bool ; floats carry ('const', T, Fraction, spelling)
  ('var', T, name)               local / parameter
  ('field', T, base, name)       base is an lvalue expression of record type
  ('index', T, base, idx)        base is an lvalue of ('sarr',..) type
  ('pidx', T, ptr, idx)          *(ptr + idx) for pointer-typed ptr
  ('deref', T, ptr)
  ('addr', ('ptr',T), lvalue)
  ('bin', T, op, a, b)   ('un', T, op, a)   ('cast', T, a)   ('cond', T, c, a, b)
  ('call', T, fname, [args])
  ('lib', T, name, [args])       library function with an assumed contract (sqrt, pow, acos, hash, ...)
  ('seq', T, [stmts], e)         side effects then value (stmts restricted to 'expr' and 'assign')
  ('sarrlit', T, [elems])
  ('optnone', T)  ('optsome', T, v)  ('opthas', bool, o)  ('optval', T, o)
  ('undef', T)                   indeterminate value (defaulted default constructor)
  ('asg', T, lv, rv)             assignment used as an expression
  ('toks', ('str',), [tokens])   string value as a token list (see lower.py: strings)
Statements:
  ('decl', name, T, init|None) ('assign', lv, rv) ('expr', e) ('if', c, [then], [else])
  ('for', [init], cond|None, [inc], [body]) ('ret', e|None) ('block', [stmts])
  ('assert', e, text)            generated (e.g. "lookup hits")
"""
from fractions import Fraction

F32 = ('f', 'float')
F64 = ('f', 'double')
F80 = ('f', 'long double')
BOOL = ('bool',)
VOID = ('void',)
SIZE_T = ('i', 64, False)
INT = ('i', 32, True)


def is_float(t):
    return t[0] == 'f'


def is_int(t):
    return t[0] in ('i', 'bool', 'enum')


def is_scalar(t):
    return t[0] in ('f', 'i', 'bool', 'enum', 'ptr')


def strip_ref(t):
    return t[1] if t[0] == 'ref' else t


class Func:
    def __init__(self, cname, qualname, kind, params, ret, node):
        self.cname = cname
        self.qualname = qualname      # human readable, e.g. PhQ::Vector<double>::Cross
        self.kind = kind              # 'method' | 'ctor' | 'func' | 'static'
        self.params = params          # [(name, T)] already lowered (refs -> ptrs, self first)
        self.ret = ret                # lowered return type (ref -> ptr)
        self.ret_is_ref = False
        self.node = node
        self.body = None              # [stmts]
        self.temps = []               # [(name, T)]
        self.record = None            # canonical record name for members
        self.loc = None               # (file, line)
        self.callees = set()
        self.libs = set()
        self.outside = None           # reason if outside the translated subset

    def __repr__(self):
        return "<Func %s>" % self.qualname


class Record:
    def __init__(self, canon, cname):
        self.canon = canon
        self.cname = cname
        self.bases = []      # canonical names
        self.fields = []     # [(name, T)]
        self.node = None
        self.template = None  # template name
        self.targs = []       # canonical arg strings
        self.methods = {}     # decl id -> node
        self.polymorphic = False

    def all_fields(self):
        return self.fields


class Enum:
    def __init__(self, qualname, underlying):
        self.qualname = qualname
        self.underlying = underlying   # ('i', bits, signed)
        self.enumerators = []          # [(name, value)]
        self.node = None
