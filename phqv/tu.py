"""Generated driver translation units: #include the real headers and force instantiation of exactly the
entities a property needs, so that clang's AST carries their instantiated bodies."""
import os, re
from . import astload

TENSORS = ['PlanarVector', 'Vector', 'SymmetricDyad', 'Dyad']

TRAITS = r'''
#include <type_traits>
#include <utility>
#include <functional>
#include <ostream>
namespace PhQ { namespace phqv_use {
#define PHQV_BIN(NAME, OP) \
  template <class A, class B, class = void> struct NAME : std::false_type {}; \
  template <class A, class B> struct NAME<A, B, std::void_t<decltype(std::declval<const A&>() OP std::declval<const B&>())>> : std::true_type {};
PHQV_BIN(can_add, +) PHQV_BIN(can_sub, -) PHQV_BIN(can_mul, *) PHQV_BIN(can_div, /)
PHQV_BIN(can_eq, ==) PHQV_BIN(can_ne, !=) PHQV_BIN(can_lt, <) PHQV_BIN(can_gt, >) PHQV_BIN(can_le, <=) PHQV_BIN(can_ge, >=)
#define PHQV_ASG(NAME, OP) \
  template <class A, class B, class = void> struct NAME : std::false_type {}; \
  template <class A, class B> struct NAME<A, B, std::void_t<decltype(std::declval<A&>() OP std::declval<const B&>())>> : std::true_type {};
PHQV_ASG(can_muleq, *=) PHQV_ASG(can_diveq, /=) PHQV_ASG(can_addeq, +=) PHQV_ASG(can_subeq, -=)
template <class T, class = void> struct can_hash : std::false_type {};
template <class T> struct can_hash<T, std::void_t<decltype(std::hash<T>()(std::declval<const T&>()))>> : std::true_type {};
template <class A, class B> void binops(const A& a, const B& b) {
  if constexpr (can_add<A, B>::value) (void)(a + b);
  if constexpr (can_sub<A, B>::value) (void)(a - b);
  if constexpr (can_mul<A, B>::value) (void)(a * b);
  if constexpr (can_div<A, B>::value) (void)(a / b);
}
template <class A> void cmps(const A& a, const A& b) {
  if constexpr (can_eq<A, A>::value) (void)(a == b);
  if constexpr (can_ne<A, A>::value) (void)(a != b);
  if constexpr (can_lt<A, A>::value) (void)(a < b);
  if constexpr (can_gt<A, A>::value) (void)(a > b);
  if constexpr (can_le<A, A>::value) (void)(a <= b);
  if constexpr (can_ge<A, A>::value) (void)(a >= b);
  if constexpr (can_hash<A>::value) (void)(std::hash<A>()(a));
}
template <class A, class N> void scal(A& a, const N& n) {
  if constexpr (can_muleq<A, N>::value) a *= n;
  if constexpr (can_diveq<A, N>::value) a /= n;
}
template <class N, class A> void nmul(const N& n, const A& a) {
  if constexpr (can_mul<N, A>::value) (void)(n * a);
}
template <class T, class = void> struct has_dims : std::false_type {};
template <class T> struct has_dims<T, std::void_t<decltype(T::Dimensions())>> : std::true_type {};
template <class A> void dims(const A&) {
  if constexpr (has_dims<A>::value) (void)A::Dimensions();
}
template <class Q, class = void> struct has_unit : std::false_type {};
template <class Q> struct has_unit<Q, std::void_t<decltype(Q::Unit())>> : std::true_type {};
template <class Q, auto u, class V, class... A> struct can_create : std::false_type {};
template <class Q, auto u, class... A> struct can_create<Q, u, std::void_t<decltype(Q::template Create<u>(std::declval<A>()...))>, A...> : std::true_type {};
template <class Q, auto u, class... A> void create_one() {
  if constexpr (can_create<Q, u, void, A...>::value) (void)Q::template Create<u>(A()...);
}
template <class Q, class N, auto u> void create_all() {
  create_one<Q, u, N>(); create_one<Q, u, N, N>(); create_one<Q, u, N, N, N>(); create_one<Q, u, N, N, N, N, N, N>();
  create_one<Q, u, N, N, N, N, N, N, N, N, N>();
  create_one<Q, u, std::array<N, 2>>(); create_one<Q, u, std::array<N, 3>>(); create_one<Q, u, std::array<N, 6>>(); create_one<Q, u, std::array<N, 9>>();
  create_one<Q, u, PlanarVector<N>>(); create_one<Q, u, Vector<N>>(); create_one<Q, u, SymmetricDyad<N>>(); create_one<Q, u, Dyad<N>>();
}
template <class Q, class N> void members(const Q& q) {
  if constexpr (has_unit<Q>::value) {
    using U = std::remove_cv_t<decltype(Q::Unit())>;
    constexpr U u0 = static_cast<U>(0);
    constexpr U u1 = static_cast<U>(1);
    (void)q.template StaticValue<u0>(); (void)q.template StaticValue<u1>();
    create_all<Q, N, u0>(); create_all<Q, N, u1>();
  }
}
template <class T, class = void> struct can_stream : std::false_type {};
template <class T> struct can_stream<T, std::void_t<decltype(std::declval<std::ostream&>() << std::declval<const T&>())>> : std::true_type {};
template <class A> void strm(std::ostream& os, const A& a) {
  if constexpr (can_stream<A>::value) os << a;
}
template <class D, class S> void conv(D& d, const S& s) {
  if constexpr (std::is_constructible_v<D, const S&>) { D c(s); (void)c; }
  if constexpr (std::is_assignable_v<D&, const S&>) d = s;
}
} }  // namespace PhQ::phqv_use
'''


def class_templates():
    """Class templates with the single parameter NumericType, found in the headers of the working
    tree: (name, header).  Mechanical scan of the declarations; count is checked by callers."""
    out = []
    inc = astload.INC
    for h in astload.all_headers():
        txt = open(os.path.join(inc, h)).read()
        for m in re.finditer(r'template <typename NumericType(?: = double)?>\s*\nclass (\w+)\s*(?::[^{;]*)?\{', txt):
            out.append((m.group(1), h))
    return out


def ordered_headers(hs):
    # sub-directory headers of ConstitutiveModel must come after ConstitutiveModel.hpp
    top = [h for h in hs if h.count('/') == 1]
    sub = [h for h in hs if h.count('/') > 1]
    return top + sub


def includes(hs):
    return ''.join('#include <%s>\n' % h for h in ordered_headers(hs))


NT = {'double': 'double', 'float': 'float', 'long double': 'long double'}


TENSOR_HEADERS = ['PhQ/PlanarVector.hpp', 'PhQ/Vector.hpp', 'PhQ/SymmetricDyad.hpp', 'PhQ/Dyad.hpp',
                  'PhQ/Direction.hpp', 'PhQ/PlanarDirection.hpp', 'PhQ/Angle.hpp']
PHQ_CLASS_RE = None


def qualify(ts, classes):
    """Qualify PhQ class-template names in a printed type and substitute the numeric type later."""
    return re.sub(r'(?<![\w:])(%s)<' % '|'.join(sorted(classes, key=len, reverse=True)), r'PhQ::\1<', ts)


def free_operator_templates(ast, names=('operator+', 'operator-', 'operator*', 'operator/')):
    """Free function templates in namespace PhQ: (name, [param type strings], n template params)."""
    out = []
    seen = set()
    for o in ast.walk():
        if o.get('kind') != 'FunctionTemplateDecl' or o.get('name') not in names:
            continue
        p = ast.up(o)
        if p is None or p.get('kind') != 'NamespaceDecl' or p.get('name') != 'PhQ':
            continue
        tparams = [c['name'] for c in o.get('inner', ()) if c.get('kind') == 'TemplateTypeParmDecl']
        pat = [c for c in o.get('inner', ()) if c.get('kind') == 'FunctionDecl']
        if not pat:
            continue
        ps = [c['type']['qualType'] for c in pat[0].get('inner', ()) if c.get('kind') == 'ParmVarDecl']
        key = (o['name'], tuple(ps))
        if key in seen:
            continue
        seen.add(key)
        out.append((o['name'], ps, tparams))
    return out


def tensors_tu(types=('double',), other_types=('float',), free_templates=None, classes=None):
    hs = TENSOR_HEADERS
    s = includes(hs) + TRAITS
    cls = TENSORS
    for t in types:
        for c in cls:
            s += 'template class PhQ::%s<%s>;\n' % (c, t)
            s += 'template struct std::hash<PhQ::%s<%s>>;\n' % (c, t)
    if free_templates is None:
        return s
    s += 'namespace PhQ { namespace phqv_use {\n'
    n = 0
    allcls = classes or (TENSORS + ['Direction', 'PlanarDirection'])
    for t in types:
        for (name, ps, tps) in free_templates:
            op = name[len('operator'):]
            if len(ps) != 2:
                continue
            pts = []
            for p in ps:
                q = p
                for tp in tps:
                    q = re.sub(r'\b%s\b' % tp, t, q)
                pts.append(q)
            s += 'void useop_%d(%s a, %s b) { (void)(a %s b); }\n' % (n, pts[0], pts[1], op)
            n += 1
        args = ', '.join('PhQ::%s<%s>& a%d, PhQ::%s<%s>& b%d' % (c, t, i, c, t, i) for i, c in enumerate(cls))
        s += 'void use_%d(%s, %s n) {\n' % (n, args, t)
        n += 1
        for i, c in enumerate(cls):
            s += '  cmps(a%d, b%d); scal(a%d, n);\n' % (i, i, i)
        s += '}\n'
        for o in other_types:
            if o == t:
                continue
            args = ', '.join('PhQ::%s<%s>& d%d, const PhQ::%s<%s>& s%d' % (c, t, i, c, o, i) for i, c in enumerate(cls))
            s += 'void useconv_%d(%s) {\n' % (n, args)
            n += 1
            for i, c in enumerate(cls):
                s += '  conv(d%d, s%d);\n' % (i, i)
            s += '}\n'
    s += '} }\n'
    return s


def quantities_tu(types=('double',), other_types=('float',), classes=None, hash_=True, conv=True, members=False):
    """All headers; every class template<NumericType> explicitly instantiated for each numeric type;
    comparison operators, number*q, compound scaling, std::hash and (optionally) the converting
    constructor/assignment instantiated by use."""
    cls = classes or class_templates()
    names = [c for c, _ in cls]
    s = includes([h for h in astload.all_headers() if 'ConstitutiveModel' not in h]) + TRAITS
    names = [c for c, h in cls if 'ConstitutiveModel' not in h]
    for t in types:
        for c in names:
            if c in ('ConstitutiveModel',):
                continue
            s += 'template class PhQ::%s<%s>;\n' % (c, t)
            if hash_:
                s += 'template struct std::hash<PhQ::%s<%s>>;\n' % (c, t)
    # one representative instantiation of each Dimensional* base class template (all members, incl. the text forms)
    reps = {}
    for h in astload.all_headers():
        txt = open(os.path.join(astload.INC, h)).read()
        for m in re.finditer(r'class (\w+) : public (Dimensional\w+)<Unit::(\w+), NumericType>', txt):
            reps.setdefault(m.group(2), m.group(3))
    for t in types:
        for b, u in sorted(reps.items()):
            s += 'template class PhQ::%s<PhQ::Unit::%s, %s>;\n' % (b, u, t)
    s += 'namespace PhQ { namespace phqv_use {\n'
    n = 0
    for t in types:
        for c in names:
            if c in ('ConstitutiveModel',):
                continue
            s += 'void use_%d(%s<%s>& a, %s<%s>& b, %s n, std::ostream& os) { cmps(a, b); scal(a, n); nmul(n, a); dims(a); strm(os, a); }\n' % (
                n, c, t, c, t, t)
            n += 1
            if members:
                s += 'void use_%d(%s<%s>& a) { members<%s<%s>, %s>(a); }\n' % (n, c, t, c, t, t)
                n += 1
            if conv:
                for o in other_types:
                    if o != t:
                        s += 'void use_%d(%s<%s>& d, const %s<%s>& s) { conv(d, s); }\n' % (n, c, t, c, o)
                        n += 1
    s += '} }\n'
    return s


def unit_types():
    """Unit enumeration types, from the header names under include/PhQ/Unit (each defines Unit::<Name>)."""
    d = os.path.join(astload.INC, 'PhQ', 'Unit')
    return sorted(f[:-4] for f in os.listdir(d) if f.endswith('.hpp'))


def enum_count(u):
    """Number of enumerators of Unit::<u>, counted in the header text (enum class <u> : int8_t { ... })."""
    txt = open(os.path.join(astload.INC, 'PhQ', 'Unit', u + '.hpp')).read()
    m = re.search(r'enum class %s\s*:\s*\w+\s*\{(.*?)\};' % re.escape(u), txt, re.S)
    if not m:
        return 0
    body = re.sub(r'///[^\n]*', '', m.group(1))
    body = re.sub(r'/\*.*?\*/', '', body, flags=re.S)
    return len([x for x in body.split(',') if x.strip()])


def units_tu(types=('double',), shapes=True, model_type=False):
    """Unit headers; dispatch tables and every conversion entry point instantiated for each unit type."""
    uts = unit_types()
    hs = ['PhQ/Base.hpp', 'PhQ/Unit.hpp', 'PhQ/UnitSystem.hpp'] + ['PhQ/Unit/%s.hpp' % u for u in uts] + \
        ['PhQ/PlanarVector.hpp', 'PhQ/Vector.hpp', 'PhQ/SymmetricDyad.hpp', 'PhQ/Dyad.hpp']
    if model_type:
        hs.append('PhQ/ConstitutiveModel.hpp')
    s = includes(hs) + '#include <vector>\nnamespace PhQ { namespace phqv_use {\n'
    n = 0
    for t in types:
        for u in uts:
            U = 'Unit::' + u
            s += 'void use_%d(%s& x, std::array<%s, 3>& a3, std::vector<%s>& vv, PlanarVector<%s>& pv, Vector<%s>& v, SymmetricDyad<%s>& sd, Dyad<%s>& d, %s a, %s b) {\n' % (
                n, t, t, t, t, t, t, t, U, U)
            n += 1
            s += '  (void)&Internal::MapOfConversionsToStandard<%s, %s>; (void)&Internal::MapOfConversionsFromStandard<%s, %s>;\n' % (U, t, U, t)
            s += '  ConvertInPlace(x, a, b); (void)Convert(x, a, b);\n'
            if shapes:
                s += '  ConvertInPlace(a3, a, b); ConvertInPlace(vv, a, b); ConvertInPlace(pv, a, b); ConvertInPlace(v, a, b); ConvertInPlace(sd, a, b); ConvertInPlace(d, a, b);\n'
                s += '  (void)Convert(a3, a, b); (void)Convert(vv, a, b); (void)Convert(pv, a, b); (void)Convert(v, a, b); (void)Convert(sd, a, b); (void)Convert(d, a, b);\n'
            # compile-time forms: three ordered pairs of distinct enumerators (the templates are generic in the pair)
            if shapes:
                n_en = enum_count(u)
                pairs = [(0, 1), (1, 0)] + ([(n_en - 1, 1)] if n_en > 2 else [])
                for (ea, eb) in pairs if n_en >= 2 else []:
                    targs = '%s, static_cast<%s>(%d), static_cast<%s>(%d)' % (U, U, ea, U, eb)
                    s += '  (void)ConvertStatically<%s>(x); (void)ConvertStatically<%s>(a3); (void)ConvertStatically<%s>(pv); (void)ConvertStatically<%s>(v); (void)ConvertStatically<%s>(sd); (void)ConvertStatically<%s>(d);\n' % (
                        targs, targs, targs, targs, targs, targs)
            s += '  (void)Abbreviation(a); (void)ParseEnumeration<%s>("x"); (void)ConsistentUnit<%s>(UnitSystem::MetreKilogramSecondKelvin); (void)RelatedUnitSystem(a);\n' % (U, U)
            s += '}\n'
    s += 'void use_us(UnitSystem s) { (void)Abbreviation(s); (void)ParseEnumeration<UnitSystem>("x"); }\n'
    if model_type:
        s += 'void use_mt(ConstitutiveModel::Type s) { (void)Abbreviation(s); (void)ParseEnumeration<ConstitutiveModel::Type>("x"); }\n'
    s += 'void use_print(float a, double b, long double c) { (void)Print(a); (void)Print(b); (void)Print(c); }\n'
    s += '} }\n'
    return s


MODELS = ['ElasticIsotropicSolid', 'CompressibleNewtonianFluid', 'IncompressibleNewtonianFluid']


def models_tu(types=('double',)):
    hs = ['PhQ/ConstitutiveModel.hpp'] + ['PhQ/ConstitutiveModel/%s.hpp' % m for m in MODELS]
    s = includes(hs) + TRAITS
    for t in types:
        for m in MODELS:
            s += 'template class PhQ::ConstitutiveModel::%s<%s>;\n' % (m, t)
            s += 'template struct std::hash<PhQ::ConstitutiveModel::%s<%s>>;\n' % (m, t)
    s += 'namespace PhQ { namespace phqv_use {\n'
    n = 0
    for t in types:
        for m in MODELS:
            s += 'void use_%d(ConstitutiveModel::%s<%s>& a, ConstitutiveModel::%s<%s>& b) { cmps(a, b); }\n' % (n, m, t, m, t)
            n += 1
    s += '} }\n'
    return s


def print_tu():
    """PhQ::Print<T> for the three numeric types (Base.hpp only)."""
    return includes(['PhQ/Base.hpp']) + 'namespace PhQ { namespace phqv_use {\n' \
        'void use_print(float a, double b, long double c) { (void)Print(a); (void)Print(b); (void)Print(c); }\n} }\n'
