"""Check framework: obligations, evidence, known findings, exit codes."""
import json, os, shutil, sys, time, re, traceback
from concurrent.futures import ThreadPoolExecutor

VERIF = os.path.dirname(os.path.dirname(os.path.abspath(__file__)))
WORK = os.path.join(VERIF, '.work')
NCPU = int(os.environ.get('PHQV_JOBS', '16'))

TRUSTED_COMMON = [
    "clang 14 front end (name lookup, overload resolution, template instantiation, implicit conversions) as dumped by -ast-dump=json",
    "phqv lowering rules C++ AST -> C / terms (must-fire rules; listed in DESIGN.md 3.1) and library mappings (std::array, optional, map, unordered_map, function)",
    "CBMC 6.11 (goto conversion, DFCC contract instrumentation, IEEE float bit-blasting) with cvc5 1.0 / MiniSat back ends",
    "z3 4.8.12 (qfnra-nlsat) with z3 5.1.0 fallback for real-arithmetic obligations",
]


class Ob:
    """One proof obligation and its outcome."""
    __slots__ = ('name', 'mode', 'backend', 'status', 'seconds', 'function', 'loc', 'detail', 'cex',
                 'text', 'replay')

    def __init__(self, name, mode, function=None, loc=None):
        self.name = name
        self.mode = mode            # 'IEEE' | 'REAL' | 'NOISY' | 'ground' | 'static'
        self.backend = None
        self.status = 'pending'     # discharged | failed | undecided | bounded | error
        self.seconds = 0.0
        self.function = function
        self.loc = loc
        self.detail = ''
        self.cex = None
        self.text = None            # obligation text sample
        self.replay = None          # dict describing native replay (see replay.py)


class Check:
    def __init__(self, pid, tier, seed):
        self.pid = pid
        self.tier = tier
        self.seed = seed
        self.t0 = time.time()
        # one scratch directory and one replay directory per (property, tier): a quick and a thorough run of the same
        # property may run side by side; both are emptied at the start of a run so that nothing stale is reported
        self.work = os.path.join(WORK, '%s.%s' % (pid, tier) if tier != 'quick' else pid)
        shutil.rmtree(self.work, ignore_errors=True)
        os.makedirs(self.work, exist_ok=True)
        self.replay_dir = os.path.join(VERIF, 'replays', '%s.%s' % (pid, tier))
        shutil.rmtree(self.replay_dir, ignore_errors=True)
        os.makedirs(self.replay_dir, exist_ok=True)
        self.obs = []
        self.assumptions = []
        self.functions = {}       # cname -> (qualname, loc)
        self.outside = []         # functions outside the translated subset, with reason
        self.bounded = []         # (name, bound text)
        self.notes = []
        self.violations = []      # (ob, replay path, tail)
        self.known_hits = []
        self.machinery_errors = []
        self.extra = {}
        self.trusted = list(TRUSTED_COMMON)
        self.checker_cmd = ''
        self.known = load_known(pid)

    def log(self, *a):
        print('[%s %6.1fs]' % (self.pid, time.time() - self.t0), *a, file=sys.stderr, flush=True)

    def under_contract(self, f):
        self.functions[f.cname] = (f.qualname, '%s:%s' % (os.path.relpath(f.loc[0], '/repo') if f.loc and f.loc[0] else '?', f.loc[1] if f.loc else '?'))

    def assume(self, text):
        if text not in self.assumptions:
            self.assumptions.append(text)

    def add(self, ob):
        self.obs.append(ob)
        return ob

    def error(self, text):
        self.machinery_errors.append(text)
        self.log('MACHINERY:', text)

    # ------------------------------------------------------------------ finishing
    def evidence(self, violations):
        obs = [o for o in self.obs if o.status != 'bounded']
        known = [o for o in obs if o.status == 'known']
        counted = [o for o in obs if o.status != 'known']
        dis = [o for o in counted if o.status == 'discharged']
        by_backend, by_mode = {}, {}
        for o in dis:
            by_backend[o.backend or '?'] = by_backend.get(o.backend or '?', 0) + 1
            by_mode[o.mode] = by_mode.get(o.mode, 0) + 1
        slow = sorted(counted, key=lambda o: -o.seconds)[:5]
        samples = []
        seen_fam = set()
        for o in counted:
            fam = re.sub(r'[.:][^.:]*$', '', o.name)
            if fam in seen_fam or not o.text:
                continue
            seen_fam.add(fam)
            samples.append({'obligation': o.name, 'mode': o.mode, 'backend': o.backend, 'function': o.function,
                            'source': o.loc, 'text': o.text[:1500], 'status': o.status})
            if len(samples) >= 8:
                break
        if not samples:
            samples = [{'obligation': o.name, 'status': o.status} for o in counted[:3]]
        ev = {
            'property_id': self.pid,
            'tier': self.tier,
            'seed': self.seed,
            'level': 'proof',
            'wall_s': round(time.time() - self.t0, 2),
            'violations': violations,
            'assumptions': self.assumptions,
            'coverage': {
                'obligations': len(counted),
                'discharged': len(dis),
                'checker_cmd': self.checker_cmd,
                'trusted_base': self.trusted,
                'samples': samples,
                'functions_under_contract': len(self.functions),
                'functions_sample': [list(v) for v in list(self.functions.values())[:12]],
                'obligations_by_backend': by_backend,
                'obligations_by_mode': by_mode,
                'solver_seconds_total': round(sum(o.seconds for o in counted), 2),
                'solver_seconds_max': round(max([o.seconds for o in counted] or [0]), 2),
                'slowest': [[o.name, round(o.seconds, 2)] for o in slow],
                'bounded_checked': [list(b) for b in self.bounded],
                'outside_subset': self.outside[:60],
                'outside_subset_count': len(self.outside),
                'known_findings': [o.name for o in known],
                'undecided': [o.name + ': ' + o.detail[:200] for o in counted if o.status in ('undecided', 'error')][:40],
                'failed': [o.name for o in counted if o.status == 'failed'][:40],
                'notes': self.notes,
            },
        }
        ev['coverage'].update(self.extra)
        # obligations per family (first two name components), and the vacuity guard against the counts recorded on the
        # unchanged tree (family_baseline.json, generated by tools_family_baseline.py, never written at run time): a family
        # that exists there and generates no obligation now has silently dropped out -> machinery error (exit 2)
        fams = {}
        for o in self.obs:
            fam = '.'.join(o.name.split('.')[:2])
            fams[fam] = fams.get(fam, 0) + 1
        ev['coverage']['obligations_by_family'] = fams
        try:
            base = json.load(open(os.path.join(VERIF, 'family_baseline.json'))).get(self.pid, {})
        except (OSError, ValueError):
            base = {}
        for fam, cnt in sorted(base.items()):
            if cnt > 0 and fams.get(fam, 0) == 0 and not any(fam in e for e in self.machinery_errors):
                self.error('vacuity: obligation family %s generated %d obligations on the reference tree and none now' % (fam, cnt))
        os.makedirs(os.path.join(VERIF, 'evidence'), exist_ok=True)
        with open(os.path.join(VERIF, 'evidence', self.pid + '.json'), 'w') as f:
            json.dump(ev, f, indent=1, default=str)
        return ev

    def finish(self):
        nviol = len(self.violations)
        for o, path, tail in self.violations:
            print('VIOLATION property=%s replay=%s%s' % (self.pid, path, (' ' + tail) if tail else ''), flush=True)
        for line in self.known_hits:
            print('KNOWN-FINDING: property=%s %s' % (self.pid, line), flush=True)
        ev = self.evidence(nviol)
        cov = ev['coverage']
        und = [o for o in self.obs if o.status in ('undecided', 'error', 'pending')]
        failed_unconfirmed = [o for o in self.obs if o.status == 'failed' and not any(v[0] is o for v in self.violations)]
        self.log('obligations=%d discharged=%d violations=%d known=%d undecided=%d bounded=%d wall=%.1fs' % (
            cov['obligations'], cov['discharged'], nviol, len(self.known_hits), len(und), len(self.bounded), ev['wall_s']))
        if nviol:
            return 1
        if und or failed_unconfirmed or self.machinery_errors:
            for o in (und + failed_unconfirmed)[:20]:
                self.log('UNDECIDED', o.name, o.status, o.detail[:300])
            for e in self.machinery_errors[:20]:
                self.log('MACHINERY', e)
            return 2
        if cov['obligations'] == 0:
            self.log('no obligations generated: vacuous')
            return 2
        return 0


def load_known(pid):
    """Lines 'finding: property=<id> obligation=<name> <text>' of known_findings.txt for this property."""
    out = []
    p = os.path.join(VERIF, 'known_findings.txt')
    if not os.path.exists(p):
        return out
    for line in open(p):
        line = line.strip()
        if not line.startswith('finding:'):
            continue
        m = re.match(r'finding:\s+property=(\S+)\s+obligation=(\S+)\s*(.*)$', line)
        if m and m.group(1) == pid:
            out.append((m.group(2), m.group(3)))
    return out


def pmap(fn, items, workers=None):
    workers = workers or NCPU
    if not items:
        return []
    with ThreadPoolExecutor(max_workers=workers) as ex:
        return list(ex.map(fn, items))
