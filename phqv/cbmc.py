"""goto-cc -> goto-instrument --dfcc (contract enforcement / replacement, loop contracts) -> cbmc."""
import os, re, subprocess, time, resource

MEM_LIMIT = 12 * 1024 ** 3


def _limits():
    resource.setrlimit(resource.RLIMIT_AS, (MEM_LIMIT, MEM_LIMIT))


def run(cmd, timeout, log):
    t0 = time.time()
    try:
        r = subprocess.run(cmd, stdout=subprocess.PIPE, stderr=subprocess.STDOUT, text=True,
                           timeout=timeout, preexec_fn=_limits)
        out, rc = r.stdout, r.returncode
    except subprocess.TimeoutExpired as e:
        out = (e.stdout or b'').decode('utf-8', 'replace') if isinstance(e.stdout, bytes) else (e.stdout or '')
        out += '\nTIMEOUT after %ds' % timeout
        rc = -9
    with open(log, 'a') as f:
        f.write('$ ' + ' '.join(cmd) + '\n' + out + '\n')
    return rc, out, time.time() - t0


PROP_RE = re.compile(r'^\[([^\]]+)\] (?:line (\d+) )?(.*): (SUCCESS|FAILURE|UNKNOWN|ERROR)$', re.M)

BAD_LOG = ('ignoring', 'unknown type', 'Parse Error', 'Invariant check failed', 'invariant violation',
           'Unexpected', 'CONVERSION ERROR', 'PARSING ERROR', 'error:')


class CbmcResult:
    def __init__(self):
        self.props = []        # (name, line, desc, status)
        self.status = 'error'  # 'ok' | 'failed' | 'timeout' | 'error'
        self.seconds = 0.0
        self.log = None
        self.backend = None
        self.trace = {}        # variable -> (value text, bits)
        self.note = ''

    def failed(self):
        return [p for p in self.props if p[3] != 'SUCCESS']


def verify(ctext, workdir, name, entry='harness', enforce=None, replace=(), loop_contracts=False,
           backend='cvc5', timeout=120, flags=(), unwind=None, want_trace=True, object_bits=12):
    """Run the chain on C text.  Returns CbmcResult."""
    os.makedirs(workdir, exist_ok=True)
    base = os.path.join(workdir, name)
    src = base + '.c'
    log = base + '.log'
    with open(src, 'w') as f:
        f.write(ctext)
    if os.path.exists(log):
        os.remove(log)
    res = CbmcResult()
    res.log = log
    res.backend = {'cvc5': 'cbmc->cvc5', 'sat': 'cbmc->minisat', 'z3': 'cbmc->z3'}[backend]
    t0 = time.time()
    rc, out, _ = run(['goto-cc', '-o', base + '.a.gb', '--function', entry, src], 120, log)
    if rc != 0:
        res.note = 'goto-cc failed: ' + out[-500:]
        return res
    gb = base + '.a.gb'
    if enforce or replace or loop_contracts:
        cmd = ['goto-instrument', '--dfcc', entry]
        if enforce:
            cmd += ['--enforce-contract', enforce]
        for r in replace:
            cmd += ['--replace-call-with-contract', r]
        if loop_contracts:
            cmd += ['--apply-loop-contracts']
        cmd += [gb, base + '.b.gb']
        rc, out, _ = run(cmd, 300, log)
        if rc != 0:
            res.note = 'goto-instrument failed: ' + out[-800:]
            return res
        gb = base + '.b.gb'
    cmd = ['cbmc', gb] + (['--object-bits', str(object_bits)] if object_bits else []) + list(flags)
    if backend == 'cvc5':
        cmd.append('--cvc5')
    elif backend == 'z3':
        cmd += ['--z3']
    if unwind is not None:
        cmd += ['--unwind', str(unwind), '--unwinding-assertions']
    if want_trace:
        cmd.append('--trace')
    rc, out, dt = run(cmd, timeout, log)
    res.seconds = time.time() - t0
    if rc == -9:
        res.status = 'timeout'
        res.note = 'cbmc timeout %ds' % timeout
        return res
    for b in BAD_LOG:
        if b in out and not (b == 'error:' and 'VERIFICATION' in out):
            # "ignoring" of quantifiers or parse problems invalidate the answer
            if b in ('ignoring',) and 'ignoring forall' not in out and 'ignoring exists' not in out:
                continue
            res.note = 'suspicious cbmc output: %s' % b
            res.status = 'error'
            res.props = [(m.group(1), m.group(2), m.group(3), m.group(4)) for m in PROP_RE.finditer(out)]
            return res
    res.props = [(m.group(1), m.group(2), m.group(3), m.group(4)) for m in PROP_RE.finditer(out)]
    if 'VERIFICATION SUCCESSFUL' in out:
        res.status = 'ok'
    elif 'VERIFICATION FAILED' in out:
        res.status = 'failed'
        res.trace = parse_trace(out)
    else:
        res.status = 'error'
        res.note = 'no verdict: ' + out[-400:]
    for f in (base + '.a.gb', base + '.b.gb'):
        try:
            os.remove(f)
        except OSError:
            pass
    return res


ASSIGN_RE = re.compile(r'^  ([A-Za-z_][\w\.\[\]\->$!@#:]*)=(.*?)(?: \(([01 ?,{}]+)\))?$')


def parse_trace(out):
    """Last assignment to each variable in the (first) trace.  Values keep the bit pattern."""
    tr = {}
    if 'Trace for' in out:
        seg = out[out.index('Trace for'):]
        nxt = seg.find('\nTrace for', 10)
        if nxt > 0:
            seg = seg[:nxt]
    else:
        seg = out
    for line in seg.split('\n'):
        m = ASSIGN_RE.match(line)
        if m:
            bits = (m.group(3) or '').replace(' ', '')
            tr[m.group(1)] = (m.group(2), bits)
    return tr


def bits_to_float_hex(bits):
    """IEEE bit string (32 or 64 bits) -> C hex float text and Python float."""
    import struct
    if len(bits) == 32:
        v = struct.unpack('>f', int(bits, 2).to_bytes(4, 'big'))[0]
    elif len(bits) == 64:
        v = struct.unpack('>d', int(bits, 2).to_bytes(8, 'big'))[0]
    else:
        return None
    return v
