"""IEEE-mode obligations: CBMC code contracts (DFCC) on the C emitted from the lowered IR."""
import os, re, struct, json, shutil
from fractions import Fraction
from . import cemit, cbmc, replay, astload
from .core import Ob
from .lower import Unsupported, tstr


def cleaves(low, base, t, arrow=False):
    """C lvalue strings of the scalar leaves of an object of IR type t named by C expression `base`
    (`arrow`: base is a pointer)."""
    sep = '->' if arrow else '.'
    k = t[0]
    if k in ('f', 'i', 'bool', 'enum'):
        return ['(*%s)' % base if arrow else base]
    if k == 'sarr':
        out = []
        for i in range(t[2]):
            out += cleaves(low, '%s%se[%d]' % (base, sep, i), t[1])
        return out
    if k == 'rec':
        r = low.record(t[1])
        out = []
        for i, b in enumerate(r.bases):
            out += cleaves(low, '%s%s_b%d' % (base, sep, i), ('rec', b))
        for fn, ft in r.fields:
            out += cleaves(low, '%s%s%s' % (base, sep, fn), ft)
        return out
    if k == 'opt':
        return ['%s%shas' % (base, sep)] + cleaves(low, '%s%sval' % (base, sep), t[1])
    raise Unsupported('leaves of %s' % (t,))


def param_leaves(low, f):
    """{param name: [C lvalue strings]} for use inside contract clauses of f."""
    out = {}
    for pn, pt in f.params:
        if pt[0] == 'ptr':
            out[pn] = cleaves(low, pn, pt[1], arrow=True)
        else:
            out[pn] = cleaves(low, pn, pt)
    return out


def old(s):
    return '__CPROVER_old(%s)' % s


def isnan_fn(kind):
    return {'float': '__CPROVER_isnanf', 'double': '__CPROVER_isnand', 'long double': '__CPROVER_isnanld'}[kind]


def isinf_fn(kind):
    return {'float': '__CPROVER_isinff', 'double': '__CPROVER_isinfd', 'long double': '__CPROVER_isinfld'}[kind]


def finite(x, kind):
    return '(!%s(%s) && !%s(%s))' % (isnan_fn(kind), x, isinf_fn(kind), x)


def ctype_of(lt):
    return {'f': lambda t: t[1]}.get(lt[0], lambda t: 'long')(lt)


class PureAbstraction:
    """Contract that abstracts a side-effect-free function g by uninterpreted functions of the scalar
    leaves of its arguments: result leaf i == U_g_i(all argument leaves).  Used with
    --replace-call-with-contract so that callers are verified against g's contract, not its body
    (the abstraction assumes only that g is a deterministic function of the values it is given,
    which holds for the translated subset: no globals, no I/O)."""

    def __init__(self, low, g):
        self.low, self.g = low, g
        self.arg_leaves = []      # C lvalues inside g's contract
        self.arg_types = []
        self.arg_of = {}
        for i, (pn, pt) in enumerate(g.params):
            if g.kind == 'ctor' and i == 0:
                continue
            vt = pt[1] if pt[0] == 'ptr' else pt
            ls = cleaves(low, pn, vt, arrow=(pt[0] == 'ptr'))
            self.arg_of[pn] = (len(self.arg_leaves), len(ls))
            self.arg_leaves += ls
            self.arg_types += replay.leaf_types(low, vt)
        rt = g.ret
        if g.kind == 'ctor':
            st = g.params[0][1][1]
            self.ret_types = replay.leaf_types(low, st)
            self.ret_leaves = cleaves(low, 'self', st, arrow=True)
            self.frame = '__CPROVER_assigns(*self)'
        else:
            self.ret_types = replay.leaf_types(low, rt) if rt != ('void',) else []
            self.ret_leaves = cleaves(low, '__CPROVER_return_value', rt) if rt != ('void',) else []
            self.frame = '__CPROVER_assigns()'

    def uf(self, i):
        return '__CPROVER_uninterpreted_%s_r%d' % (self.g.cname, i)

    def decls(self):
        out = []
        ats = ', '.join(ctype_of(t) for t in self.arg_types)
        for i, rt in enumerate(self.ret_types):
            out.append('%s %s(%s);' % (ctype_of(rt), self.uf(i), ats))
        return '\n'.join(out) + '\n'

    def clauses(self):
        cl = [self.frame]
        args = ', '.join(self.arg_leaves)
        for i, rl in enumerate(self.ret_leaves):
            cl.append('__CPROVER_ensures(%s == %s(%s))' % (rl, self.uf(i), args))
        return cl

    def app(self, i, arg_leaf_exprs):
        return '%s(%s)' % (self.uf(i), ', '.join(arg_leaf_exprs))


_HDR = {}


def default_includes(low, f):
    """Headers for a native replay of f: the header that defines f and the headers of every class that
    occurs in its signature (None = all headers, if something cannot be located)."""
    from . import tu
    if not _HDR:
        for c, h in tu.class_templates():
            _HDR[c] = h
    hs = []
    if f.loc and f.loc[0] and f.loc[0].startswith(astload.INC):
        hs.append(os.path.relpath(f.loc[0], astload.INC))

    def visit(t):
        if t[0] in ('ptr', 'ref', 'opt', 'sarr'):
            visit(t[1])
        elif t[0] == 'rec':
            r = low.records.get(t[1])
            if r is not None and r.template in _HDR:
                if _HDR[r.template] not in hs:
                    hs.append(_HDR[r.template])
            elif r is not None and r.template is None:
                pass
            else:
                hs.append(None)
    for _, pt in f.params:
        visit(pt)
    visit(f.ret)
    if f.record:
        visit(('rec', f.record))
    if None in hs or not hs:
        return None
    return hs


class IeeeJob:
    def __init__(self, check, name, low, f, ensures, requires=(), assigns=None, replace=(), replace_contracts=None,
                 backend='cvc5', timeout=120, predicate=None, includes=None, extra_roots=(), flags=(), text_extra='', replay_extra=()):
        self.check, self.name, self.low, self.f = check, name, low, f
        self.ensures, self.requires = list(ensures), list(requires)
        self.assigns = assigns
        self.replace = list(replace)
        self.replace_contracts = replace_contracts or {}
        self.backend, self.timeout = backend, timeout
        self.predicate = predicate
        if includes is None:
            includes = default_includes(low, f)
        self.includes = includes
        self.extra_roots = list(extra_roots)
        self.flags = list(flags)
        self.text_extra = text_extra
        self.replay_extra = list(replay_extra)
        self.search_tries = 6
        self.gen = default_gen
        loc = '%s:%s' % (os.path.relpath(f.loc[0], astload.REPO), f.loc[1]) if f.loc and f.loc[0] else None
        self.ob = Ob(name, 'IEEE', f.qualname, loc)

    def frame(self):
        if self.assigns is not None:
            return self.assigns
        return '__CPROVER_assigns()'

    def text(self):
        low, f = self.low, self.f
        E = cemit.CEmitter(low)
        E.abstract_sqrt = getattr(self, 'abstract_sqrt', False)
        clauses = ['__CPROVER_requires(%s)' % r for r in self.requires]
        clauses.append(self.frame())
        clauses += ['__CPROVER_ensures(%s)' % e for e in self.ensures]
        contracts = {f.cname: clauses}
        for g, cl in self.replace_contracts.items():
            contracts[g] = cl
        decl, args = [], []
        for i, (pn, pt) in enumerate(f.params):
            if pt[0] == 'ptr':
                decl.append('%s in_%s;' % (E.ctype(pt[1]), pn))
                args.append('&in_%s' % pn)
            else:
                decl.append('%s in_%s;' % (E.ctype(pt), pn))
                args.append('in_%s' % pn)
        call = '%s(%s)' % (f.cname, ', '.join(args))
        if f.ret != ('void',):
            call = '%s r = %s' % (E.ctype(f.ret), call)
        harness = 'void harness(void) {\n  %s\n  %s;\n}\n' % ('\n  '.join(decl), call)
        bodyless = [g for g in self.replace]
        txt = E.unit([f] + self.extra_roots, contracts=contracts, bodyless=(), extra=self.text_extra) + harness
        assumed = sorted(k for k in E.helpers if k.startswith(('phqv_hypot', 'phqv_sqrt', 'phqv_acos')))
        self.uses_assumed_lib = ', '.join(assumed)
        return txt

    def run(self):
        ob = self.ob
        try:
            txt = self.text()
            ob.text = '\n'.join(l for l in txt.split('\n') if '__CPROVER_ensures' in l or '__CPROVER_requires' in l or '__CPROVER_assigns' in l)[:1800]
            backends = self.backend if isinstance(self.backend, (list, tuple)) else [self.backend]
            tried = []
            for be in backends:
                r = cbmc.verify(txt, os.path.join(self.check.work, 'cbmc'), re.sub(r'[^\w.]+', '_', self.name)[:180],
                                enforce=self.f.cname, replace=self.replace, backend=be, timeout=self.timeout,
                                flags=self.flags)
                tried.append('%s:%s:%.1fs' % (be, r.status, r.seconds))
                if r.status in ('ok', 'failed'):
                    break
            ob.detail = ' '.join(tried)
            ob.seconds, ob.backend = r.seconds, r.backend
            post = [p for p in r.props if '.postcondition' in p[0]]
            if r.status == 'ok':
                if len(post) != len(self.ensures):
                    ob.status = 'error'
                    ob.detail = 'vacuity: %d ensures clauses planned, cbmc reported %d postconditions' % (len(self.ensures), len(post))
                else:
                    ob.status = 'discharged'
            elif r.status == 'failed':
                ob.status = 'failed'
                ob.detail += ' cbmc FAILURE: ' + '; '.join('%s (%s)' % (p[0], p[2][:80]) for p in r.failed()[:6])
                ob.cex = r.trace
                self.result = r
            else:
                ob.status = 'undecided'
                ob.detail += ' %s %s (log %s)' % (r.status, r.note[:300], r.log)
        except Unsupported as e:
            ob.status, ob.detail = 'error', 'Unsupported: %s' % e
        except Exception as e:
            import traceback
            ob.status, ob.detail = 'error', '%s: %s | %s' % (type(e).__name__, e, traceback.format_exc()[-600:])
        return ob

    # ------------------------------------------------------------------ counterexample replay
    def witness(self):
        """Inputs from the CBMC trace: {param: [Fraction|float leaves]}."""
        low, f = self.low, self.f
        tr = self.ob.cex or {}
        out = {}
        for pn, pt in f.params:
            if f.kind == 'ctor' and pn == 'self':
                continue
            vt = pt[1] if pt[0] == 'ptr' else pt
            lts = replay.leaf_types(low, vt)
            groups = [g.replace(' ', '') for g in re.split(r'[,{}()]', self._raw_bits(pn))]
            groups = [g for g in groups if g]
            if len(groups) != len(lts):
                return None
            out[pn] = [bits_value(g, lt) for g, lt in zip(groups, lts)]
        return out

    def _raw_bits(self, pn):
        # bit pattern text as printed in the log (the parsed trace strips braces)
        log = open(os.path.join(self.check.work, 'cbmc', re.sub(r'[^\w.]+', '_', self.name)[:180] + '.log')).read()
        m = None
        for m in re.finditer(r'^  in_%s=[^\n]*(?:\n   [^\n]*)*?\((\{?[01 ,{}\s]+\}?)\)\s*$' % re.escape(pn), log, re.M):
            pass
        if m is None:
            return ''
        return re.sub(r'\s+', ' ', m.group(1))

    def adjudicate(self):
        """After a FAILURE: replay the witness on the real code.  Returns (replay path, tail)."""
        check, ob, low, f = self.check, self.ob, self.low, self.f
        rec = {'property': check.pid, 'obligation': ob.name, 'function': ob.function, 'source': ob.loc,
               'verifier_output': ob.detail, 'contract': ob.text, 'backend': ob.backend}
        confirmed = False
        harmless = False
        try:
            w = self.witness()
            rec['witness_bits'] = {k: v[1] for k, v in (ob.cex or {}).items() if k.startswith('in_')}
            if w is not None and self.predicate is not None:
                nc = replay.NativeCall(low, f)
                cpp = nc.program(w, includes=self.includes, extra=self.replay_extra)
                r, err = replay.build_and_run(cpp, os.path.join(check.work, 'replay'), 'r_' + re.sub(r'[^\w]+', '_', ob.name)[:150])
                rec['inputs'] = {k: [str(x) for x in v] for k, v in w.items()}
                if err:
                    rec['replay_error'] = err
                else:
                    out = replay.parse_out(r.stdout)
                    rec['native_output'] = {k: [str(x) for x in v] for k, v in out.items()}
                    rec['native_stderr'] = r.stderr[-2000:]
                    rec['cpp'] = cpp
                    bad = self.predicate(w, out, r)
                    if bad:
                        confirmed = True
                        rec['mismatch'] = bad
                    else:
                        harmless = True
        except Unsupported as e:
            rec['replay_error'] = 'Unsupported: %s' % e
        except Exception as e:
            rec['replay_error'] = '%s: %s' % (type(e).__name__, e)
        if not confirmed and self.predicate is not None:
            # refutation search (native, seeded): only ever used to confirm a failed obligation
            import random
            rnd = random.Random(check.seed * 7919 + 17)
            try:
                nc = replay.NativeCall(low, f)
                for k in range(self.search_tries):
                    w = {}
                    if getattr(self, 'gen_inputs', None) is not None:
                        w = self.gen_inputs(rnd)
                    else:
                        for pn, pt in f.params:
                            if f.kind == 'ctor' and pn == 'self':
                                continue
                            vt = pt[1] if pt[0] == 'ptr' else pt
                            w[pn] = [self.gen(rnd, lt) for lt in replay.leaf_types(low, vt)]
                    cpp = nc.program(w, includes=self.includes, extra=self.replay_extra)
                    r, err = replay.build_and_run(cpp, os.path.join(check.work, 'replay'), 's%d_' % k + re.sub(r'[^\w]+', '_', ob.name)[:150])
                    if err:
                        rec['search_error'] = err
                        break
                    out = replay.parse_out(r.stdout)
                    bad = self.predicate(w, out, r)
                    if bad:
                        confirmed, harmless = True, False
                        rec.update({'inputs': {k2: [str(x) for x in v] for k2, v in w.items()}, 'input_kind': 'seeded search #%d' % k,
                                    'native_output': {k2: [str(x) for x in v] for k2, v in out.items()}, 'cpp': cpp, 'mismatch': bad})
                        break
            except Unsupported as e:
                rec['search_error'] = 'Unsupported: %s' % e
        rec['confirmed'] = confirmed
        d = check.replay_dir
        os.makedirs(d, exist_ok=True)
        path = os.path.join(d, re.sub(r'[^\w.()#,-]+', '_', ob.name) + '.replay.json')
        json.dump(rec, open(path, 'w'), indent=1, default=str)
        return path, ('' if confirmed else 'no-failing-input-found'), harmless


def default_gen(rnd, lt):
    if lt[0] == 'f':
        return Fraction(rnd.choice([-7, -5, -3, -2, -1, 1, 2, 3, 4, 5, 7, 8]))
    if lt[0] == 'bool':
        return rnd.choice([0, 1])
    return 0


def bits_value(bits, lt):
    if lt[0] == 'f':
        if lt[1] == 'float' and len(bits) == 32:
            v = struct.unpack('>f', int(bits, 2).to_bytes(4, 'big'))[0]
        elif lt[1] == 'double' and len(bits) == 64:
            v = struct.unpack('>d', int(bits, 2).to_bytes(8, 'big'))[0]
        else:
            raise Unsupported('bit width %d for %s' % (len(bits), lt[1]))
        if v != v or v in (float('inf'), float('-inf')):
            return v
        if v == 0.0 and bits[0] == '1':
            return -0.0
        return Fraction(v)
    v = int(bits, 2)
    if lt[0] in ('i', 'enum') and bits[0] == '1' and (lt[0] == 'enum' or lt[2]):
        v -= 1 << len(bits)
    return v


# ---------------------------------------------------------------------------------------------------
# native IEEE evaluation helpers for replay predicates
def rnd(kind, x):
    if kind == 'float':
        try:
            return struct.unpack('f', struct.pack('f', x))[0]
        except OverflowError:
            return float('inf') if x > 0 else float('-inf')
    return x


def fop(kind, op, a, b):
    a, b = float(a), float(b)
    try:
        if op == '+':
            r = a + b
        elif op == '-':
            r = a - b
        elif op == '*':
            r = a * b
        else:
            if b == 0.0:
                if a == 0.0 or a != a:
                    return float('nan')
                import math
                neg = (math.copysign(1, a) < 0) != (math.copysign(1, b) < 0)
                return float('-inf') if neg else float('inf')
            r = a / b
    except OverflowError:
        r = float('inf')
    return rnd(kind, r)


def same(a, b):
    a, b = float(a), float(b)
    if a != a and b != b:
        return True
    return a == b


class HarnessJob:
    """Plain CBMC harness (assume / assert) over emitted functions: used for 2-safety lemmas
    (two calls related by a precondition) that a single-function contract cannot express."""

    def __init__(self, check, name, low, roots, harness, nassert, function=None, loc=None, backend='cvc5', timeout=120,
                 text=None, extra=''):
        self.check, self.name, self.low, self.roots, self.harness = check, name, low, roots, harness
        self.nassert, self.backend, self.timeout, self.extra = nassert, backend, timeout, extra
        self.ob = Ob(name, 'IEEE', function, loc)
        self.ob.text = text or harness[:1500]

    def run(self):
        ob = self.ob
        try:
            E = cemit.CEmitter(self.low)
            txt = E.unit(self.roots, extra=self.extra) + self.harness
            backends = self.backend if isinstance(self.backend, (list, tuple)) else [self.backend]
            tried = []
            for be in backends:
                r = cbmc.verify(txt, os.path.join(self.check.work, 'cbmc'), re.sub(r'[^\w.]+', '_', self.name)[:180],
                                backend=be, timeout=self.timeout)
                tried.append('%s:%s:%.1fs' % (be, r.status, r.seconds))
                if r.status in ('ok', 'failed'):
                    break
            ob.seconds, ob.backend, ob.detail = r.seconds, r.backend, ' '.join(tried)
            asserts = [p for p in r.props if '.assertion' in p[0]]
            if r.status == 'ok':
                if len(asserts) < self.nassert:
                    ob.status, ob.detail = 'error', 'vacuity: %d assertions planned, %d reported' % (self.nassert, len(asserts))
                else:
                    ob.status = 'discharged'
            elif r.status == 'failed':
                ob.status = 'failed'
                ob.detail += ' cbmc FAILURE: ' + '; '.join('%s (%s)' % (p[0], p[2][:80]) for p in r.failed()[:5])
                ob.cex = r.trace
                self.result = r
            else:
                ob.status = 'undecided'
                ob.detail += ' %s %s' % (r.status, r.note[:300])
        except Unsupported as e:
            ob.status, ob.detail = 'error', 'Unsupported: %s' % e
        except Exception as e:
            ob.status, ob.detail = 'error', '%s: %s' % (type(e).__name__, e)
        return ob

    def raw_bits(self, var):
        log = open(os.path.join(self.check.work, 'cbmc', re.sub(r'[^\w.]+', '_', self.name)[:180] + '.log')).read()
        m = None
        for m in re.finditer(r'^  %s=.*\((\{?[01 ,{}]+\}?)\)\s*$' % re.escape(var), log, re.M):
            pass
        return m.group(1) if m else ''

    def witness(self, var, t):
        lts = replay.leaf_types(self.low, t)
        groups = [g.replace(' ', '') for g in re.split(r'[,{}()]', self.raw_bits(var))]
        groups = [g for g in groups if g]
        if len(groups) != len(lts):
            return None
        return [bits_value(g, lt) for g, lt in zip(groups, lts)]


def write_replay(check, ob, rec):
    import json
    d = check.replay_dir
    os.makedirs(d, exist_ok=True)
    path = os.path.join(d, re.sub(r'[^\w.()#,-]+', '_', ob.name)[:200] + '.replay.json')
    json.dump(rec, open(path, 'w'), indent=1, default=str)
    return path


def run_jobs(check, jobs, on_harness_fail=None):
    """Run IeeeJob / HarnessJob instances in parallel, add their obligations, adjudicate failures."""
    from .core import pmap
    obs = pmap(lambda j: j.run(), jobs)
    # an obligation that passed on the unchanged tree but now times out: native, seeded refutation search
    # (only ever used to confirm a violation; if nothing is found the obligation stays undecided -> exit 2)
    timed = [(j, ob) for j, ob in zip(jobs, obs) if ob.status == 'undecided' and 'timeout' in ob.detail
             and isinstance(j, IeeeJob) and j.predicate is not None][:8]

    def refute(jo):
        j, ob = jo
        ob.cex = {}
        path, tail, harmless = j.adjudicate()
        return path, tail
    for (j, ob), (path, tail) in zip(timed, pmap(refute, timed, workers=8)):
        if tail == '':
            ob.status = 'failed'
            ob.detail += ' | verifier timed out; seeded native refutation search found a failing input'
            j._adjudicated = (path, tail, False)
    failed = [(j, ob) for j, ob in zip(jobs, obs) if ob.status == 'failed' and isinstance(j, IeeeJob)]
    budget = 16
    adj = {}
    todo = [(j, ob) for j, ob in failed if not hasattr(j, '_adjudicated')][:budget]
    for j, ob in failed:
        if hasattr(j, '_adjudicated'):
            adj[id(j)] = j._adjudicated
    for (j, ob), res in zip(todo, pmap(lambda jo: jo[0].adjudicate(), todo, workers=8)):
        adj[id(j)] = res
    for j, ob in [x for x in failed if id(x[0]) not in adj]:
        rec = {'property': check.pid, 'obligation': ob.name, 'function': ob.function, 'source': ob.loc,
               'verifier_output': ob.detail, 'contract': ob.text, 'confirmed': False,
               'note': 'native replay budget of this run exhausted (%d failed obligations); see the replayed ones' % len(failed)}
        adj[id(j)] = (write_replay(check, ob, rec), 'no-failing-input-found', False)
    for j, ob in zip(jobs, obs):
        check.add(ob)
        if ob.status == 'failed':
            if isinstance(j, IeeeJob):
                path, tail, harmless = adj[id(j)]
                if harmless and tail and getattr(j, 'uses_assumed_lib', False):
                    # the verifier's counterexample was run on the real code and the real code satisfies the contract on
                    # it; the C text replaces a libm function (sqrt / hypot / acos) by an assumed contract that is weaker
                    # than the function: the counterexample is an artefact of that abstraction -> undecided, not a violation
                    ob.status = 'undecided'
                    ob.detail += ' | counterexample does not reproduce natively and depends on the assumed contract of a libm function (%s): not decided' % j.uses_assumed_lib
                    continue
                check.violations.append((ob, path, tail))
            elif on_harness_fail is not None:
                check.violations.append((ob,) + tuple(on_harness_fail(check, j, ob)))
            else:
                rec = {'property': check.pid, 'obligation': ob.name, 'function': ob.function, 'source': ob.loc,
                       'verifier_output': ob.detail, 'confirmed': False, 'trace': {k: v for k, v in list((ob.cex or {}).items())[:60]}}
                check.violations.append((ob, write_replay(check, ob, rec), 'no-failing-input-found'))
    return obs
