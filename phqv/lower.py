"""clang JSON AST (instantiated declarations)  ->  lowered IR (ir.py).

Every AST node kind / cast kind / library entity without a rule raises Unsupported and names the
node (must-fire rules): nothing is skipped silently.
"""
import re
from fractions import Fraction
from .ir import *
from .astload import kids

NUMS = {'float': F32, 'double': F64, 'long double': F80}
INTS = {
    'int': ('i', 32, True), 'unsigned int': ('i', 32, False), 'unsigned': ('i', 32, False),
    'long': ('i', 64, True), 'unsigned long': ('i', 64, False),
    'long long': ('i', 64, True), 'unsigned long long': ('i', 64, False),
    'short': ('i', 16, True), 'unsigned short': ('i', 16, False),
    'signed char': ('i', 8, True), 'unsigned char': ('i', 8, False), 'char': ('i', 8, True),
    'size_t': ('i', 64, False), 'std::size_t': ('i', 64, False),
    'int8_t': ('i', 8, True), 'std::int8_t': ('i', 8, True),
    'int16_t': ('i', 16, True), 'int32_t': ('i', 32, True), 'int64_t': ('i', 64, True),
    'uint8_t': ('i', 8, False), 'uint64_t': ('i', 64, False), 'std::uint64_t': ('i', 64, False),
    'std::int64_t': ('i', 64, True), 'std::int32_t': ('i', 32, True), '__int8_t': ('i', 8, True),
    'std::array::size_type': ('i', 64, False),
}


class Unsupported(Exception):
    pass


def c_unescape(v):
    """Text of a C string literal as printed by clang (octal / hex escapes for non-ASCII bytes)."""
    if v.startswith('R"'):
        m = re.match(r'^R"([^(]*)\((.*)\)\1"$', v, re.S)
        return m.group(2) if m else v
    v = re.sub(r'^(u8|u|U|L)?"', '', v)
    if v.endswith('"'):
        v = v[:-1]
    out = bytearray()
    i = 0
    simple = {'n': 10, 't': 9, 'r': 13, '\\': 92, '"': 34, "'": 39, '0': 0, 'a': 7, 'b': 8, 'f': 12, 'v': 11, '?': 63}
    while i < len(v):
        ch = v[i]
        if ch == '\\' and i + 1 < len(v):
            m = re.match(r'[0-7]{1,3}', v[i + 1:])
            if m:
                out.append(int(m.group(0), 8) & 255)
                i += 1 + len(m.group(0))
                continue
            if v[i + 1] == 'x':
                m = re.match(r'[0-9a-fA-F]+', v[i + 2:])
                out.append(int(m.group(0), 16) & 255)
                i += 2 + len(m.group(0))
                continue
            out.append(simple.get(v[i + 1], ord(v[i + 1])))
            i += 2
            continue
        out += ch.encode('utf-8')
        i += 1
    return out.decode('utf-8', 'replace')


def split_targs(s):
    out, depth, cur = [], 0, ''
    for ch in s:
        if ch in '<([':
            depth += 1
        elif ch in '>)]':
            depth -= 1
        if ch == ',' and depth == 0:
            out.append(cur.strip())
            cur = ''
        else:
            cur += ch
    if cur.strip():
        out.append(cur.strip())
    return out


def tstr(t):
    """Canonical string of a type (used in canonical record names and C identifiers)."""
    k = t[0]
    if k == 'f':
        return t[1]
    if k == 'i':
        return ('' if t[2] else 'u') + 'int%d' % t[1]
    if k == 'bool':
        return 'bool'
    if k == 'void':
        return 'void'
    if k == 'enum':
        return t[1]
    if k == 'rec':
        return t[1]
    if k == 'sarr':
        return 'std::array<%s, %d>' % (tstr(t[1]), t[2])
    if k == 'opt':
        return 'std::optional<%s>' % tstr(t[1])
    if k == 'vec':
        return 'std::vector<%s>' % tstr(t[1])
    if k in ('ptr', 'ref'):
        return tstr(t[1]) + ('*' if k == 'ptr' else '&')
    if k in ('str', 'strview', 'ostream'):
        return k
    if k == 'carr':
        return '%s[%d]' % (tstr(t[1]), t[2])
    return str(t)


def cident(s):
    s = s.replace('long double', 'ld').replace('double', 'd').replace('float', 'f')
    s = re.sub(r'[^A-Za-z0-9_]+', '_', s).strip('_')
    return s


class Lowerer:
    def __init__(self, ast):
        self.ast = ast
        self.records = {}        # canon -> Record
        self.enums = {}          # qualname (without PhQ::) -> Enum
        self.tdefaults = {}      # template name -> [default arg strings or None]
        self.funcs = {}          # decl id -> Func
        self.field_owner = {}    # field decl id -> (canon record, field name, T)
        self.rec_of_decl = {}    # member decl id -> canon record
        self.ctors = {}          # canon -> [ctor decl nodes]
        self.globals = {}        # var decl id -> node
        self.free_funcs = {}     # name -> [FunctionDecl nodes with bodies] (instantiations)
        self.tables = {}         # ('Abbreviations', enumname) etc -> node  (see tables.py)
        self.by_mangled = {}     # mangled name -> decl id
        self.cur = None          # Func being lowered
        self._tmpn = 0
        self.enumconst = {}      # enum constant decl id -> (enumname, name, value)
        self.index()

    # ------------------------------------------------------------------ indexing
    def index(self):
        ast = self.ast
        # pass 1: enums, template defaults
        for o in ast.walk():
            k = o.get('kind')
            if k == 'EnumDecl' and o.get('inner') is not None and o.get('name'):
                self._index_enum(o)
            elif k == 'ClassTemplateDecl':
                name = o.get('name')
                defs = []
                for c in kids(o):
                    if c.get('kind') == 'TemplateTypeParmDecl':
                        d = c.get('defaultArg')
                        defs.append(d['type']['qualType'] if d else None)
                    elif c.get('kind') == 'NonTypeTemplateParmDecl':
                        defs.append(None)
                if name and (name not in self.tdefaults or any(defs)):
                    self.tdefaults[name] = defs
        # pass 2: records, functions
        for o in ast.walk():
            k = o.get('kind')
            if k == 'ClassTemplateSpecializationDecl' and o.get('completeDefinition'):
                if self.ast.byid.get(o['id']) is o:
                    self._index_record(o, template=True)
            elif k == 'CXXRecordDecl' and o.get('completeDefinition') and o.get('name'):
                if self.ast.byid.get(o['id']) is o and not self._is_template_pattern(o):
                    self._index_record(o, template=False)
            elif k in ('FunctionDecl',) and o.get('mangledName'):
                self.by_mangled.setdefault(o['mangledName'], o['id'])
            if k in ('CXXMethodDecl', 'CXXConstructorDecl', 'FunctionDecl', 'CXXConversionDecl') \
                    and o.get('mangledName'):
                self.by_mangled.setdefault(o['mangledName'], o['id'])

    def _is_template_pattern(self, o):
        p = self.ast.parent.get(o['id'])
        return p is not None and p.get('kind') == 'ClassTemplateDecl'

    def qual_of(self, o):
        """Qualified name of a decl by walking parents (namespaces / records), without 'PhQ::'."""
        parts = [o.get('name')]
        p = self.ast.up(o)
        while p is not None:
            if p.get('kind') in ('NamespaceDecl',) and p.get('name'):
                parts.append(p['name'])
            elif p.get('kind') in ('CXXRecordDecl', 'ClassTemplateSpecializationDecl') and p.get('name'):
                parts.append(p['name'])
            p = self.ast.up(p)
        parts.reverse()
        if parts and parts[0] == 'PhQ':
            parts = parts[1:]
        return '::'.join(x for x in parts if x)

    def _index_enum(self, o):
        q = self.qual_of(o)
        und = o.get('fixedUnderlyingType', {}).get('desugaredQualType') or \
            o.get('fixedUnderlyingType', {}).get('qualType') or 'int'
        e = Enum(q, INTS.get(und, ('i', 32, True)))
        e.node = o
        val = -1
        for c in kids(o):
            if c.get('kind') == 'EnumConstantDecl':
                v = None
                for cc in kids(c):
                    v = self._const_int(cc)
                val = v if v is not None else val + 1
                e.enumerators.append((c['name'], val))
                self.enumconst[c['id']] = (q, c['name'], val)
        self.enums[q] = e

    def _const_int(self, n):
        k = n.get('kind')
        if k == 'IntegerLiteral':
            return int(n['value'])
        if k == 'ConstantExpr' and 'value' in n:
            return int(n['value'])
        if k in ('ImplicitCastExpr', 'ConstantExpr', 'ParenExpr'):
            for c in kids(n):
                return self._const_int(c)
        if k == 'UnaryOperator' and n.get('opcode') == '-':
            for c in kids(n):
                v = self._const_int(c)
                return -v if v is not None else None
        return None

    def _in_use_ns(self, o):
        p = o
        n = 0
        while p is not None and n < 30:
            if p.get('kind') == 'NamespaceDecl' and p.get('name') == 'phqv_use':
                return True
            p = self.ast.up(p)
            n += 1
        return False

    def access_of(self, declid):
        """'public' | 'protected' | 'private' of a member declaration (from the AccessSpecDecl sequence)."""
        if not hasattr(self, '_access'):
            self._access = {}
        if declid in self._access:
            return self._access[declid]
        rec = self.rec_of_decl.get(declid)
        if rec is None or rec not in self.records:
            return 'public'
        node = self.records[rec].node
        cur = 'private' if node.get('tagUsed') == 'class' else 'public'
        for c in kids(node):
            if c.get('kind') == 'AccessSpecDecl':
                cur = c.get('access', cur)
            elif 'id' in c:
                self._access[c['id']] = cur
                for cc in kids(c):
                    if 'id' in cc and c.get('kind') == 'FunctionTemplateDecl':
                        self._access[cc['id']] = cur
        return self._access.get(declid, 'public')

    def _index_record(self, o, template):
        if self._in_use_ns(o) or not self._is_phq_decl(o):
            return
        if template:
            targs = []
            for c in kids(o):
                if c.get('kind') == 'TemplateArgument':
                    if 'type' in c:
                        targs.append(tstr(self.ptype(c['type']['qualType'])))
                    elif 'value' in c:
                        targs.append(str(c['value']))
                    else:
                        # non-type (enum) template argument: printed via inner expr / decl
                        targs.append(self._targ_text(c))
            canon = '%s<%s>' % (o['name'], ', '.join(targs))
        else:
            q = self.qual_of(o)
            canon = q
            targs = []
        if canon in self.records and self.records[canon].node is not None:
            return
        r = Record(canon, 'S_' + cident(canon))
        r.node = o
        r.template = o['name'] if template else None
        r.targs = targs
        self.records[canon] = r
        dd = o.get('definitionData', {})
        r.polymorphic = bool(dd.get('isPolymorphic'))
        r.defdata = dd
        for b in o.get('bases', ()):
            bt = self.ptype(b['type'].get('desugaredQualType') or b['type']['qualType'])
            if bt[0] != 'rec':
                raise Unsupported('base type %s' % (b,))
            r.bases.append(bt[1])
        self.ctors[canon] = []
        for c in kids(o):
            k = c.get('kind')
            if k == 'FieldDecl':
                ft = self.ptype(c['type'].get('desugaredQualType') or c['type']['qualType'])
                r.fields.append((c['name'], ft))
                self.field_owner[c['id']] = (canon, c['name'], ft)
            elif k in ('CXXMethodDecl', 'CXXConstructorDecl', 'CXXDestructorDecl', 'CXXConversionDecl'):
                self.rec_of_decl[c['id']] = canon
                if k == 'CXXConstructorDecl':
                    self.ctors[canon].append(c)
                r.methods[c['id']] = c
            elif k == 'FunctionTemplateDecl':
                for cc in kids(c):
                    if cc.get('kind') in ('CXXMethodDecl', 'CXXConstructorDecl', 'CXXConversionDecl'):
                        # instantiated member templates (have template arguments)
                        if any(x.get('kind') == 'TemplateArgument' for x in kids(cc)):
                            self.rec_of_decl[cc['id']] = canon
                            r.methods[cc['id']] = cc
                            if cc['kind'] == 'CXXConstructorDecl':
                                self.ctors[canon].append(cc)

    def _targ_text(self, c):
        for cc in kids(c):
            if cc.get('kind') == 'DeclRefExpr':
                rd = cc['referencedDecl']
                return rd.get('name')
            v = self._targ_text(cc)
            if v:
                return v
        return c.get('decl', {}).get('name', '?')

    # ------------------------------------------------------------------ types
    def ptype(self, s):
        s = s.strip()
        # trailing reference / pointer
        if s.endswith('&&'):
            return ('ref', self.ptype(s[:-2]), 'rvalue')
        if s.endswith('&'):
            return ('ref', self.ptype(s[:-1]))
        if s.endswith('*const'):
            return ('ptr', self.ptype(s[:-6]))
        if s.endswith('* const'):
            return ('ptr', self.ptype(s[:-7]))
        if s.endswith('*'):
            return ('ptr', self.ptype(s[:-1]))
        # cv
        changed = True
        while changed:
            changed = False
            for q in ('const ', 'volatile ', 'class ', 'struct ', 'enum ', 'typename '):
                if s.startswith(q):
                    s = s[len(q):].strip()
                    changed = True
            for q in (' const', ' volatile'):
                if s.endswith(q):
                    s = s[:-len(q)].strip()
                    changed = True
        m = re.match(r'^(.*)\[(\d+)\]$', s)
        if m:
            return ('carr', self.ptype(m.group(1)), int(m.group(2)))
        if s in NUMS:
            return NUMS[s]
        if s in INTS:
            return INTS[s]
        if s == 'bool':
            return BOOL
        if s == 'void':
            return VOID
        if s.startswith('::'):
            s = s[2:]
        # template-id
        lt = s.find('<')
        if lt > 0 and s.endswith('>'):
            name, args = s[:lt], split_targs(s[lt + 1:-1])
        else:
            name, args = s, None
        name = re.sub(r'^PhQ::', '', name)
        name = name.replace('std::__cxx11::', 'std::')
        if name in ('std::array',):
            return ('sarr', self.ptype(args[0]), int(re.sub(r'[uUlL]+$', '', args[1])))
        if name == 'std::optional':
            return ('opt', self.ptype(args[0]))
        if name == 'std::vector':
            return ('vec', self.ptype(args[0]))
        if name in ('std::basic_string', 'std::string'):
            return ('str',)
        if name in ('std::basic_string_view', 'std::string_view'):
            return ('strview',)
        if name in ('std::basic_ostream', 'std::ostream', 'std::basic_ostringstream', 'std::ostringstream'):
            return ('ostream',)
        if name == 'std::nullopt_t':
            return ('nullopt',)
        if name in self.enums and args is None:
            return ('enum', name)
        if 'iterator' in name and name.startswith('std::'):
            return ('iter',)
        if name in ('std::map', 'std::unordered_map'):
            return ('map', s)
        if name == 'std::function':
            return ('fn', s)
        if name == 'std::pair':
            return ('pair', s)
        if name.startswith('std::'):
            return ('lib', s)
        # PhQ record
        if args is None and name in self.tdefaults and name not in self.records:
            # injected class name without args is not expected in desugared types
            if all(d is not None for d in self.tdefaults[name]):
                args = []
        if args is not None:
            base = name.split('::')[-1]
            defs = self.tdefaults.get(base, [])
            cargs = []
            for a in args:
                if re.match(r'^-?\d+[uUlL]*$', a):
                    cargs.append(re.sub(r'[uUlL]+$', '', a))
                else:
                    pt = self.ptype(a)
                    cargs.append(tstr(pt))
            for i in range(len(cargs), len(defs)):
                if defs[i] is None:
                    raise Unsupported('no default for template arg %d of %s' % (i, s))
                cargs.append(tstr(self.ptype(defs[i])))
            return ('rec', '%s<%s>' % (base, ', '.join(cargs)))
        return ('rec', name)

    def ntype(self, node):
        t = node.get('type') or {}
        return self.ptype(t.get('desugaredQualType') or t['qualType'])

    def lowered(self, t):
        if t[0] == 'ref' and t[1][0] in ('str', 'strview'):
            return t[1]          # strings are values (token lists) in the IR
        return ('ptr', t[1]) if t[0] == 'ref' else t

    def record(self, canon):
        r = self.records.get(canon)
        if r is None:
            raise Unsupported('record %s has no definition in this TU' % canon)
        return r

    def base_path(self, src, dst):
        """Field path of base sub-objects from record src to its (indirect) base dst."""
        if src == dst:
            return []
        r = self.record(src)
        for i, b in enumerate(r.bases):
            try:
                p = self.base_path(b, dst)
            except Unsupported:
                continue
            if p is not None:
                return ['_b%d' % i] + p
        return None

    # ------------------------------------------------------------------ functions
    def func_for(self, declid):
        """Return the lowered Func for a declaration id (lowering it on first use)."""
        if declid in self.funcs:
            return self.funcs[declid]
        node = self.ast.byid.get(declid)
        if node is None:
            raise Unsupported('callee %s not in the dumped AST' % declid)
        return self.lower_func(node)

    def has_body(self, node):
        return any(c.get('kind') == 'CompoundStmt' for c in kids(node))

    def lower_func(self, node):
        declid = node['id']
        if declid in self.funcs:
            return self.funcs[declid]
        kind = node['kind']
        rec = self.rec_of_decl.get(declid)
        if rec is None and kind in ('CXXMethodDecl', 'CXXConstructorDecl', 'CXXConversionDecl'):
            # out-of-line instantiation listed elsewhere: find the record through the parent chain
            p = self.ast.parent.get(declid)
            while p is not None and p.get('kind') not in ('ClassTemplateSpecializationDecl', 'CXXRecordDecl'):
                p = self.ast.parent.get(p.get('id')) if p.get('id') else None
            if p is not None:
                for canon, r in self.records.items():
                    if r.node is p:
                        rec = canon
        cname = node.get('mangledName') or ('f_' + declid)
        cname = re.sub(r'[^A-Za-z0-9_]', '_', cname)
        qual = self.qual_of(node) if rec is None else rec + '::' + node.get('name', '')
        ftype = node['type']['qualType']
        is_static = node.get('storageClass') == 'static'
        params = []
        pnodes = [c for c in kids(node) if c.get('kind') == 'ParmVarDecl']
        if kind in ('CXXMethodDecl', 'CXXConversionDecl') and not is_static and rec is None:
            fk = 'func'      # member of a non-PhQ class (std::hash<...>::operator()): 'this' is not used
        elif kind in ('CXXMethodDecl', 'CXXConversionDecl') and not is_static:
            fk = 'method'
        elif kind == 'CXXConstructorDecl':
            fk = 'ctor'
        elif is_static and rec:
            fk = 'static'
        else:
            fk = 'func'
        if fk in ('method', 'ctor'):
            params.append(('self', ('ptr', ('rec', rec))))
        f = Func(cname, qual, fk, params, VOID, node)
        f.record = rec
        f.pnames = {}
        f.ptypes = {}
        used = set(['self'])
        for i, p in enumerate(pnodes):
            pt = self.ntype(p)
            nm = p.get('name') or '_p%d' % i
            nm = self._fresh_name(nm, used)
            f.pnames[p['id']] = nm
            f.ptypes[p['id']] = pt
            params.append((nm, self.lowered(pt)))
        # return type
        if fk == 'ctor':
            f.ret = VOID
        else:
            rts = self._ret_type_str(node)
            rt = self.ptype(rts)
            if not self._type_known(rt):
                rt2 = self._ret_type_from_body(node)
                if rt2 is None:
                    raise Unsupported('return type %s of %s cannot be resolved' % (rts, qual))
                rt = rt2
            f.ret_is_ref = rt[0] == 'ref'
            f.ret = self.lowered(rt)
        loc = node.get('loc', {})
        if 'spellingLoc' in loc:
            loc = loc['spellingLoc']
        f.loc = (loc.get('file'), loc.get('line'))
        f.sig = ftype
        self.funcs[declid] = f
        f.defaulted = node.get('explicitlyDefaulted') == 'default' or (node.get('isImplicit') and not self.has_body(node))
        if not self.has_body(node):
            if f.defaulted:
                f.body = None
                return f
            f.outside = 'no definition in this TU'
            return f
        saved = (self.cur, self._tmpn, getattr(self, 'locals', None), getattr(self, 'used', None))
        saved_iters = getattr(self, 'iter_inits', {})
        self.cur, self._tmpn, self.locals, self.used = f, 0, {}, used
        self.iter_inits = {}
        try:
            body = []
            if fk == 'ctor':
                for c in kids(node):
                    if c.get('kind') == 'CXXCtorInitializer':
                        body += self.ctor_init(c, rec)
            for c in kids(node):
                if c.get('kind') == 'CompoundStmt':
                    body += self.stmts(c)
            f.body = body
        finally:
            self.cur, self._tmpn, self.locals, self.used = saved
            self.iter_inits = saved_iters
        return f

    def _type_known(self, t):
        k = t[0]
        if k == 'rec':
            return t[1] in self.records
        if k in ('ref', 'ptr', 'opt', 'sarr', 'vec'):
            return self._type_known(t[1])
        return True

    def _ret_type_from_body(self, node):
        for x in self.ast.walk(node):
            if x.get('kind') == 'ReturnStmt':
                for c in kids(x):
                    ty = c.get('type') or {}
                    if 'desugaredQualType' in ty:
                        try:
                            t = self.ptype(ty['desugaredQualType'])
                        except Unsupported:
                            continue
                        if self._type_known(t):
                            return t
        return None

    def _ret_type_str(self, node):
        # function type "R (params) quals": take everything before the top-level '('
        s = node['type'].get('desugaredQualType') or node['type']['qualType']
        depth = 0
        for i, ch in enumerate(s):
            if ch in '<[':
                depth += 1
            elif ch in '>]':
                depth -= 1
            elif ch == '(' and depth == 0:
                return s[:i].strip()
        raise Unsupported('function type %s' % s)

    def _fresh_name(self, nm, used):
        CKW = {'double', 'float', 'int', 'long', 'short', 'char', 'void', 'struct', 'union', 'enum',
               'register', 'auto', 'static', 'extern', 'const', 'volatile', 'signed', 'unsigned',
               'default', 'switch', 'case', 'break', 'continue', 'return', 'if', 'else', 'for',
               'while', 'do', 'goto', 'sizeof', 'typedef', 'inline', 'restrict', 'main'}
        base = nm
        if nm in CKW:
            nm = nm + '_'
        i = 1
        while nm in used:
            i += 1
            nm = '%s_%d' % (base, i)
        used.add(nm)
        return nm

    def tmp(self, t):
        self._tmpn += 1
        nm = self._fresh_name('_t%d' % self._tmpn, self.used)
        self.cur.temps.append((nm, t))
        return ('var', t, nm)

    # ------------------------------------------------------------------ ctor initialisers
    def ctor_init(self, c, rec):
        selfp = ('var', ('ptr', ('rec', rec)), 'self')
        selfl = ('deref', ('rec', rec), selfp)
        inner = list(kids(c))
        if 'anyInit' in c:
            fid = c['anyInit']['id']
            owner, fname, ft = self.field_owner[fid]
            target = ('field', ft, selfl, fname)
            if not inner:
                return []
            if inner[0].get('kind') == 'CXXDefaultInitExpr' and not kids(inner[0]):
                fd = self.ast.byid.get(fid)
                inits = [x for x in kids(fd) if 'valueCategory' in x]
                if not inits:
                    raise Unsupported('default member initialiser of %s not in AST' % fname)
                return self.init_into(target, inits[0])
            return self.init_into(target, inner[0])
        if 'baseInit' in c:
            bt = self.ptype(c['baseInit'].get('desugaredQualType') or c['baseInit']['qualType'])
            path = self.base_path(rec, bt[1])
            target = selfl
            cur = rec
            for p in path:
                i = int(p[2:])
                cur = self.record(cur).bases[i]
                target = ('field', ('rec', cur), target, p)
            if not inner:
                return []
            return self.init_into(target, inner[0])
        if 'delegatingInit' in c:
            return self.init_into(selfl, inner[0])
        raise Unsupported('ctor initializer %s' % list(c.keys()))

    def init_into(self, target, e):
        """Statements initialising lvalue `target` from initialiser expression e."""
        e = self.strip_wrappers(e)
        k = e.get('kind')
        if k in ('CXXConstructExpr', 'CXXTemporaryObjectExpr'):
            t = self.ntype(e)
            if t[0] == 'rec':
                ctor = self.find_ctor(e, t[1])
                args = [a for a in kids(e)]
                triv = self.trivial_copy(ctor, t[1])
                if triv == 'copy':
                    return [('assign', target, self.rv(args[0]))]
                if triv == 'default':
                    return []
                f = self.func_for(ctor['id'])
                self.note_callee(f)
                cargs = [('addr', ('ptr', t), target)] + self.bind_args(f, ctor, args)
                return [('expr', ('call', VOID, f.cname, cargs))]
        return [('assign', target, self.rv(e))]

    def strip_wrappers(self, e):
        while e.get('kind') in ('ExprWithCleanups', 'CXXBindTemporaryExpr', 'ParenExpr', 'ConstantExpr',
                                'SubstNonTypeTemplateParmExpr') or \
                (e.get('kind') in ('ImplicitCastExpr', 'CXXFunctionalCastExpr', 'CXXStaticCastExpr')
                 and e.get('castKind') in ('NoOp', 'ConstructorConversion') and e.get('valueCategory') == 'prvalue'
                 and len(kids(e)) == 1 and kids(e)[0].get('valueCategory') == 'prvalue'):
            ks = [c for c in kids(e) if c.get('kind') != 'TemplateArgument']
            if len(ks) != 1:
                break
            e = ks[0]
        return e

    def norm_sig(self, s):
        s = re.sub(r'\bPhQ::', '', s)
        s = re.sub(r'\bconst\b', '', s)
        s = re.sub(r'\bnoexcept\b(\(true\))?', '', s)
        s = s.replace('std::__cxx11::', 'std::')
        s = re.sub(r'\s+', '', s)
        return s

    def find_ctor(self, e, canon):
        want = e['ctorType']['qualType']
        cands = self.ctors.get(canon)
        if cands is None:
            raise Unsupported('no constructors indexed for %s' % canon)
        # compare parameter lists through parsed types (robust to qualification / default args)
        def plist(sig):
            inside = sig[sig.index('(') + 1: sig.rindex(')')]
            ps = split_targs(inside)
            out = []
            for p in ps:
                if p == 'void' or not p:
                    continue
                try:
                    pt = self.ptype(p)
                    out.append(tstr(pt) + ('&' if len(pt) > 2 else ''))
                except Unsupported:
                    out.append(self.norm_sig(p))
            return out
        w = plist(want)
        hits = [c for c in cands if plist(c['type']['qualType']) == w]
        # prefer declarations that carry a body / are the indexed richest
        if len(hits) > 1:
            hb = [c for c in hits if self.has_body(c)]
            if len(hb) >= 1:
                hits = hb[:1] if len(set(h['id'] for h in hb)) == 1 or len(hb) == 1 else hb
        if len(hits) != 1:
            raise Unsupported('constructor %s of %s: %d candidates match' % (want, canon, len(hits)))
        return hits[0]

    def trivial_copy(self, ctor, canon):
        """'copy' for a defaulted/implicit copy or move constructor, 'default' for a defaulted
        default constructor, else None."""
        ps = [c for c in kids(ctor) if c.get('kind') == 'ParmVarDecl']
        defaulted = ctor.get('explicitlyDefaulted') == 'default' or ctor.get('isImplicit')
        if not defaulted or self.has_body(ctor):
            return None
        if len(ps) == 0:
            return 'default'
        if len(ps) == 1:
            pt = self.ntype(ps[0])
            if pt[0] == 'ref' and pt[1] == ('rec', canon):
                return 'copy'
        return None

    def note_callee(self, f):
        if self.cur is not None:
            self.cur.callees.add(f.node['id'])

    def bind_args(self, f, fnode, args):
        pnodes = [c for c in kids(fnode) if c.get('kind') == 'ParmVarDecl']
        out = []
        for i, p in enumerate(pnodes):
            pt = self.ntype(p)
            if i < len(args) and args[i].get('kind') != 'CXXDefaultArgExpr':
                a = args[i]
            else:
                inits = [c for c in kids(p) if 'valueCategory' in c or c.get('kind', '').endswith('Expr')]
                if not inits:
                    raise Unsupported('default argument of %s not in AST' % f.qualname)
                a = inits[0]
            if pt[0] == 'ref' and pt[1][0] in ('str', 'strview'):
                out.append(self.rv(a))
            elif pt[0] == 'ref':
                out.append(self.addr_of(self.lv(a)))
            else:
                out.append(self.rv(a))
        return out

    def addr_of(self, l):
        if l[0] == 'deref':
            return l[2]
        return ('addr', ('ptr', l[1]), l)

    def deref(self, p):
        if p[0] == 'addr':
            return p[2]
        t = p[1]
        if t[0] != 'ptr':
            raise Unsupported('deref of non-pointer %s' % (t,))
        return ('deref', t[1], p)

    # ------------------------------------------------------------------ statements
    def stmts(self, n):
        k = n.get('kind')
        if k == 'CompoundStmt':
            out = []
            for c in kids(n):
                out += self.stmts(c)
            return out
        if k == 'DeclStmt':
            out = []
            for c in kids(n):
                if c.get('kind') == 'VarDecl':
                    out += self.vardecl(c)
                elif c.get('kind') in ('StaticAssertDecl', 'TypedefDecl', 'TypeAliasDecl', 'UsingDecl'):
                    pass
                else:
                    raise Unsupported('DeclStmt child %s' % c.get('kind'))
            return out
        if k == 'ReturnStmt':
            ks = kids(n)
            if not ks:
                return [('ret', None)]
            f = self.cur
            if f.ret_is_ref:
                return [('ret', self.addr_of(self.lv(ks[0])))]
            return [('ret', self.rv(ks[0]))]
        if k == 'IfStmt':
            ks = list(kids(n))
            if n.get('hasInit') or n.get('hasVar'):
                raise Unsupported('if with init/var')
            c = self.rv(ks[0])
            th = self.stmts(ks[1])
            el = self.stmts(ks[2]) if len(ks) > 2 else []
            return [('if', c, th, el)]
        if k == 'ForStmt':
            ks = list(kids(n))
            if len(ks) != 5:
                raise Unsupported('ForStmt shape')
            init = self.stmts(ks[0]) if ks[0].get('kind') else []
            if ks[1].get('kind'):
                raise Unsupported('for condition variable')
            cond = self.rv(ks[2]) if ks[2].get('kind') else None
            inc = self.stmts(ks[3]) if ks[3].get('kind') else []
            body = self.stmts(ks[4])
            return [('for', init, cond, inc, body)]
        if k == 'NullStmt' or k == 'StaticAssertDecl':
            return []
        if k in ('CXXTryStmt', 'WhileStmt', 'DoStmt', 'SwitchStmt', 'CXXForRangeStmt', 'BreakStmt',
                 'ContinueStmt', 'GotoStmt'):
            raise Unsupported('statement kind %s (outside the translated subset)' % k)
        # expression statement
        return self.expr_stmt(n)

    def expr_stmt(self, n):
        n0 = self.strip_wrappers(n)
        k = n0.get('kind')
        if k == 'UnaryOperator' and n0.get('opcode') in ('++', '--'):
            l = self.lv(kids(n0)[0])
            one = ('const', INT, 1)
            return [('assign', l, ('bin', l[1], '+' if n0['opcode'] == '++' else '-', l, one))]
        e = self.rv(n0) if n0.get('valueCategory') == 'prvalue' else self.lv(n0)
        return self.flatten_stmt(e)

    def flatten_stmt(self, e):
        if e[0] == 'asg':
            return [('assign', e[2], e[3])]
        if e[0] == 'seq':
            out = list(e[2])
            out += self.flatten_stmt(e[3])
            return out
        if e[0] in ('var', 'const', 'field', 'index', 'undef'):
            return []
        if e[0] == 'deref':
            return self.flatten_stmt(e[2])
        if e[0] == 'addr':
            return self.flatten_stmt(e[2])
        return [('expr', e)]

    def vardecl(self, c):
        t = self.ntype(c)
        nm = self._fresh_name(c['name'], self.used)
        self.locals[c['id']] = (nm, t)
        inits = [x for x in kids(c) if x.get('kind') not in (None,) and ('valueCategory' in x or x.get('kind', '').endswith('Expr'))]
        lt = self.lowered(t)
        if not inits:
            return [('decl', nm, lt, None)]
        e = inits[0]
        if t[0] == 'ref':
            return [('decl', nm, lt, self.addr_of(self.lv(e)))]
        if t[0] in ('rec',):
            out = [('decl', nm, lt, None)]
            out += self.init_into(('var', lt, nm), e)
            return out
        if t[0] == 'ostream':
            return [('decl', nm, lt, None)]
        v = self.rv(e)
        if t[0] == 'iter' and 'const' in c.get('type', {}).get('qualType', '') and v[0] == 'lib' and v[2] == 'table_find':
            # a const iterator initialised by TABLE.find(k): uses of the name denote that lookup (needed to resolve the
            # std::function row called through it)
            self.iter_inits[nm] = v
        return [('decl', nm, lt, v)]

    # ------------------------------------------------------------------ expressions
    def lv(self, n):
        n = self._skip(n)
        k = n.get('kind')
        cat = n.get('valueCategory')
        if k == 'DeclRefExpr':
            return self.declref(n)
        if k == 'MemberExpr':
            return self.member(n)
        if k == 'CXXThisExpr':
            raise Unsupported('this as lvalue')
        if k == 'UnaryOperator' and n.get('opcode') == '*':
            return self.deref(self.rv(kids(n)[0]))
        if k in ('ImplicitCastExpr', 'CXXStaticCastExpr', 'CXXFunctionalCastExpr', 'CStyleCastExpr', 'CXXConstCastExpr'):
            ck = n.get('castKind')
            ch = kids(n)[0]
            if ck == 'NoOp':
                return self.lv(ch)
            if ck in ('UncheckedDerivedToBase', 'DerivedToBase'):
                src = self.ntype(ch)
                dst = self.ntype(n)
                base = self.lv(ch)
                if src[0] in ('iter', 'ostream'):
                    return base
                return self.to_base(base, src, dst)
            raise Unsupported('lvalue cast %s' % ck)
        if k == 'MaterializeTemporaryExpr' and self.ntype(n)[0] in ('str', 'strview'):
            return self.rv(kids(n)[0])
        if k == 'MaterializeTemporaryExpr':
            ch = kids(n)[0]
            t = self.ntype(n)
            v = self.rv(ch)
            # a temporary that is only read: bind a temp variable
            tv = self.tmp(t)
            return self.deref(('seq', ('ptr', t), [('assign', tv, v)], ('addr', ('ptr', t), tv)))
        if k in ('CallExpr', 'CXXMemberCallExpr', 'CXXOperatorCallExpr'):
            e = self.call(n)
            if cat in ('lvalue', 'xvalue'):
                return e
            raise Unsupported('prvalue call used as lvalue')
        if k == 'BinaryOperator' and n.get('opcode') == '=':
            ks = kids(n)
            l = self.lv(ks[0])
            return ('asg', l[1], l, self.rv(ks[1]))
        if k == 'CompoundAssignOperator':
            return self.compound_assign(n)
        if k == 'ArraySubscriptExpr':
            ks = kids(n)
            p = self.rv(ks[0])
            return ('pidx', self.ntype(n), p, self.rv(ks[1]))
        if k == 'InitListExpr' and len(kids(n)) == 1:
            ch = kids(n)[0]
            if ch.get('valueCategory') in ('lvalue', 'xvalue'):
                return self.lv(ch)
            t = self.ntype(n)
            tv = self.tmp(t)
            return self.deref(('seq', ('ptr', t), [('assign', tv, self.rv(ch))], ('addr', ('ptr', t), tv)))
        if k == 'ConditionalOperator' and cat == 'lvalue':
            ks = kids(n)
            t = self.ntype(n)
            return self.deref(('cond', ('ptr', t), self.rv(ks[0]), self.addr_of(self.lv(ks[1])), self.addr_of(self.lv(ks[2]))))
        raise Unsupported('lvalue of %s' % k)

    def _skip(self, n):
        while n.get('kind') in ('ParenExpr', 'ExprWithCleanups', 'CXXBindTemporaryExpr', 'ConstantExpr',
                                'SubstNonTypeTemplateParmExpr'):
            ks = [c for c in kids(n) if c.get('kind') != 'TemplateArgument']
            if n.get('kind') == 'ConstantExpr' and 'value' in n and not ks:
                break
            n = ks[-1] if n.get('kind') == 'SubstNonTypeTemplateParmExpr' else ks[0]
        return n

    def to_base(self, base_l, src, dst):
        if src[0] != 'rec' or dst[0] != 'rec':
            raise Unsupported('derived-to-base on %s -> %s' % (src, dst))
        path = self.base_path(src[1], dst[1])
        if path is None:
            raise Unsupported('no base path %s -> %s' % (src[1], dst[1]))
        cur = src[1]
        for p in path:
            i = int(p[2:])
            cur = self.record(cur).bases[i]
            base_l = ('field', ('rec', cur), base_l, p)
        return base_l

    def declref(self, n):
        rd = n['referencedDecl']
        rk = rd.get('kind')
        rid = rd['id']
        if rk == 'ParmVarDecl':
            f = self.cur
            if rid not in f.pnames:
                raise Unsupported('parameter %s not of current function' % rd.get('name'))
            t = f.ptypes[rid]
            nm = f.pnames[rid]
            if t[0] == 'ref' and t[1][0] in ('str', 'strview'):
                return ('var', t[1], nm)
            if t[0] == 'ref':
                return ('deref', t[1], ('var', ('ptr', t[1]), nm))
            return ('var', t, nm)
        if rk == 'VarDecl' or rk == 'VarTemplateSpecializationDecl':
            if rid in self.locals:
                nm, t = self.locals[rid]
                if t[0] == 'ref':
                    return ('deref', t[1], ('var', ('ptr', t[1]), nm))
                return ('var', t, nm)
            return self.global_ref(n, rd)
        if rk == 'EnumConstantDecl':
            q, nm, v = self.enumconst[rid]
            return ('const', ('enum', q), v)
        raise Unsupported('DeclRefExpr to %s %s' % (rk, rd.get('name')))

    def global_ref(self, n, rd):
        """Namespace-scope constants (Standard<U>, Pi<T>, RelatedDimensions<U>, Dimensionless, ...):
        replaced by their initialiser (they are const/constexpr)."""
        node = self.ast.byid.get(rd['id'])
        if node is None and rd.get('name') == 'max_digits10':
            # std::numeric_limits<NumericType>::max_digits10 (a std declaration, not dumped): fixed by the numeric
            # type of the enclosing instantiation (float 9, double 17, x87 long double 21)
            fts = [pt for _, pt in self.cur.params if pt[0] == 'f']
            if len(set(fts)) != 1:
                raise Unsupported('max_digits10: numeric type of the enclosing function is not unique')
            return ('const', self.ntype(n), {'float': 9, 'double': 17, 'long double': 21}[fts[0][1]])
        if node is None:
            raise Unsupported('global %s not in AST' % rd.get('name'))
        t = self.ntype(node)
        inits = [x for x in kids(node) if 'valueCategory' in x or x.get('kind', '').endswith('Expr')]
        if not inits:
            raise Unsupported('global %s has no initialiser (%s)' % (rd.get('name'), node.get('kind')))
        if node.get('name') == 'Pi':
            v = self.rv(inits[0])
            return ('lib', t, 'PI', [v])
        if t[0] in ('f', 'i', 'bool', 'enum'):
            return self.rv(inits[0])
        if t[0] == 'rec':
            # a constant object: materialise through a temp initialised on each use
            saved = None
            tv = self.tmp(t)
            st = self.init_into(tv, inits[0])
            st2 = []
            for s in st:
                st2.append(s)
            return self.deref(('seq', ('ptr', t), st2, ('addr', ('ptr', t), tv)))
        raise Unsupported('global %s of type %s' % (rd.get('name'), t))

    def member(self, n):
        fid = n.get('referencedMemberDecl')
        base = kids(n)[0]
        if fid not in self.field_owner:
            if n.get('name') in ('second', 'first'):
                it = self.iterator_of(base)
                if it is not None:
                    tbl = getattr(self.cur, 'last_table', None)
                    if it[0] == 'lib' and it[2] == 'table_find':
                        tbl = it[3][0]
                    if tbl is None:
                        raise Unsupported('iterator dereference with unknown table')
                    return ('lib', self.ntype(n), 'iter_' + n['name'], [it, tbl])
            raise Unsupported('member %s is not an indexed field' % n.get('name'))
        owner, fname, ft = self.field_owner[fid]
        if n.get('isArrow'):
            b = self.deref(self.rv(base))
        else:
            if base.get('valueCategory') == 'prvalue':
                t = self.ntype(base)
                tv = self.tmp(t)
                b = self.deref(('seq', ('ptr', t), [('assign', tv, self.rv(base))], ('addr', ('ptr', t), tv)))
            else:
                b = self.lv(base)
        return ('field', ft, b, fname)

    def rv(self, n):
        n = self._skip(n)
        k = n.get('kind')
        cat = n.get('valueCategory')
        if k == 'ConstantExpr' and 'value' in n:
            t = self.ntype(n)
            return ('const', t, int(n['value']))
        if k == 'DeclRefExpr':
            return self.declref(n)
        if cat in ('lvalue', 'xvalue') and k not in ('MaterializeTemporaryExpr',):
            return self.lv(n)
        if k == 'MaterializeTemporaryExpr':
            return self.rv(kids(n)[0])
        if k in ('ImplicitCastExpr', 'CXXStaticCastExpr', 'CXXFunctionalCastExpr', 'CStyleCastExpr'):
            return self.cast(n)
        if k == 'FloatingLiteral':
            return self.floatlit(n)
        if k == 'IntegerLiteral':
            return ('const', self.ntype(n), int(n['value']))
        if k == 'CXXBoolLiteralExpr':
            return ('const', BOOL, bool(n['value']))
        if k == 'CharacterLiteral':
            return ('const', self.ntype(n), int(n['value']))
        if k == 'CXXThisExpr':
            return ('var', self.ntype(n), 'self')
        if k == 'BinaryOperator':
            op = n['opcode']
            ks = kids(n)
            if op == '=':
                l = self.lv(ks[0])
                return ('asg', l[1], l, self.rv(ks[1]))
            if op == ',':
                a = self.flatten_stmt(self.rv(ks[0]))
                b = self.rv(ks[1])
                return ('seq', b[1], a, b)
            return ('bin', self.ntype(n), op, self.rv(ks[0]), self.rv(ks[1]))
        if k == 'UnaryOperator':
            op = n['opcode']
            ch = kids(n)[0]
            if op == '&':
                return self.addr_of(self.lv(ch))
            if op in ('-', '+', '!', '~'):
                return ('un', self.ntype(n), op, self.rv(ch))
            raise Unsupported('unary %s' % op)
        if k == 'ConditionalOperator':
            ks = kids(n)
            return ('cond', self.ntype(n), self.rv(ks[0]), self.rv(ks[1]), self.rv(ks[2]))
        if k == 'InitListExpr':
            return self.initlist(n)
        if k in ('CXXConstructExpr', 'CXXTemporaryObjectExpr'):
            return self.construct(n)
        if k in ('CallExpr', 'CXXMemberCallExpr', 'CXXOperatorCallExpr'):
            return self.call(n)
        if k == 'CXXScalarValueInitExpr':
            t = self.ntype(n)
            return ('const', t, 0)
        if k == 'CXXDefaultInitExpr':
            return self.rv(kids(n)[0])
        if k == 'StringLiteral':
            return ('toks', ('str',), [('LIT', self.strlit(n))])
        if k == 'CXXNullPtrLiteralExpr':
            return ('const', self.ntype(n), 0)
        raise Unsupported('rvalue of %s' % k)

    def strlit(self, n):
        return c_unescape(n.get('value', '""'))

    def floatlit(self, n):
        t = self.ntype(n)
        loc = n['range']['begin']
        txt = self.ast.source_text(loc)
        m = re.match(r'^([0-9]*\.?[0-9]*(?:[eE][-+]?[0-9]+)?)([fFlL]?)$', txt)
        if not m or not m.group(1):
            raise Unsupported('floating literal spelling %r' % txt)
        val = Fraction(m.group(1))
        return ('const', t, val, txt)

    def cast(self, n):
        ck = n.get('castKind')
        ch = kids(n)[0]
        t = self.ntype(n)
        if ck == 'LValueToRValue':
            return self.lv(ch)
        if ck in ('NoOp', 'ConstructorConversion', 'UserDefinedConversion'):
            return self.rv(ch)
        if ck in ('FloatingCast', 'IntegralCast', 'IntegralToFloating', 'FloatingToIntegral',
                  'IntegralToBoolean', 'FloatingToBoolean', 'BooleanToSignedIntegral'):
            v = self.rv(ch)
            if v[1] == t:
                return v
            return ('cast', t, v)
        if ck in ('UncheckedDerivedToBase', 'DerivedToBase'):
            if t[0] == 'ptr' and t[1][0] == 'ostream':
                return self.rv(ch)
            if t[0] == 'ptr':
                p = self.rv(ch)
                src = self.ntype(ch)
                l = self.to_base(self.deref(p), src[1], t[1])
                return self.addr_of(l)
            if t[0] in ('iter', 'ostream'):
                return self.rv(ch)
            if t[0] == 'ptr' and t[1][0] == 'ostream':
                return self.rv(ch)
            return self.to_base(self.rv(ch), self.ntype(ch), t)
        if ck == 'ArrayToPointerDecay':
            c0 = self._skip(ch)
            if c0.get('kind') == 'StringLiteral':
                return ('toks', ('str',), [('LIT', self.strlit(c0))])
            raise Unsupported('array decay of %s' % c0.get('kind'))
        if ck == 'FunctionToPointerDecay':
            raise Unsupported('function pointer value')
        if ck == 'NullToPointer':
            return ('const', t, 0)
        raise Unsupported('cast kind %s' % ck)

    def compound_assign(self, n):
        ks = kids(n)
        l = self.lv(ks[0])
        r = self.rv(ks[1])
        op = n['opcode'][:-1]
        lt = l[1]
        ct = self.ptype(n['computeResultType']['qualType']) if 'computeResultType' in n else lt
        clt = self.ptype(n['computeLHSType']['qualType']) if 'computeLHSType' in n else lt
        a = l if clt == lt else ('cast', clt, l)
        v = ('bin', ct, op, a, r)
        if ct != lt:
            v = ('cast', lt, v)
        return ('asg', lt, l, v)

    def initlist(self, n):
        t = self.ntype(n)
        ks = list(kids(n))
        if t[0] in ('f', 'i', 'bool', 'enum', 'ptr', 'iter'):
            if not ks:
                return ('const', t, 0)
            return self.rv(ks[0])
        if t[0] == 'sarr':
            if len(ks) == 1 and self._skip(ks[0]).get('kind') == 'InitListExpr':
                inner = self._skip(ks[0])
                elems = [self.rv(x) for x in kids(inner)]
                if 'array_filler' in inner:
                    elems = [self.rv(x) for x in inner['array_filler'] if x.get('kind') not in ('ImplicitValueInitExpr',)]
                while len(elems) < t[2]:
                    elems.append(('const', t[1], 0))
                return ('sarrlit', t, elems)
            if len(ks) == 1:
                return self.rv(ks[0])
            raise Unsupported('std::array init list shape')
        if t[0] == 'rec':
            if len(ks) == 1:
                return self.rv(ks[0])
        if t[0] in ('str', 'strview'):
            if not ks:
                return ('toks', ('str',), [])
            if len(ks) == 1:
                return self.rv(ks[0])
        raise Unsupported('InitListExpr of type %s' % (t,))

    def construct(self, n):
        t = self.ntype(n)
        args = list(kids(n))
        if t[0] == 'sarr':
            if len(args) == 1:
                return self.rv(args[0])
            if not args:
                return self.tmp(t)
            raise Unsupported('std::array construction with %d args' % len(args))
        if t[0] == 'opt':
            if not args:
                return ('optnone', t)
            a = args[0]
            at = self.ntype(a)
            if at[0] == 'nullopt' or (at[0] == 'lib' and 'nullopt' in at[1]):
                return ('optnone', t)
            if at == t or (at[0] == 'ref' and at[1] == t):
                return self.rv(a)
            return ('optsome', t, self.rv(a))
        if t[0] == 'str':
            return self.str_construct(n, args)
        if t[0] == 'strview':
            if len(args) == 1:
                return self.rv(args[0])
            raise Unsupported('string_view construction')
        if t[0] in ('iter', 'fn') and len(args) == 1:
            return self.rv(args[0])
        if t[0] == 'ostream' and not args:
            return self.tmp(t)
        if t[0] == 'vec' and len(args) == 1:
            at = self.ntype(args[0])
            at = at[1] if at[0] == 'ref' else at
            if at == t:
                # copy construction of a std::vector: fresh storage of the same size (element-wise copy is a library contract)
                return ('lib', t, 'vec_copy', [self.addr_of(self.lv(args[0]))])
        if t[0] != 'rec':
            raise Unsupported('construction of %s' % (t,))
        ctor = self.find_ctor(n, t[1])
        triv = self.trivial_copy(ctor, t[1])
        if triv == 'copy':
            return self.rv(args[0])
        if triv == 'default':
            return self.tmp(t)
        f = self.func_for(ctor['id'])
        self.note_callee(f)
        tv = self.tmp(t)
        cargs = [('addr', ('ptr', t), tv)] + self.bind_args(f, ctor, args)
        return ('seq', t, [('expr', ('call', VOID, f.cname, cargs))], tv)

    # ------------------------------------------------------------------ strings (token abstraction)
    def cat(self, *parts):
        toks = []
        for p in parts:
            if p[0] == 'toks':
                toks += p[2]
            else:
                toks.append(('SUB', p))
        return ('toks', ('str',), toks)

    def str_construct(self, n, args):
        args = [a for a in args if a.get('kind') != 'CXXDefaultArgExpr']
        if not args:
            return ('toks', ('str',), [])
        if len(args) == 1:
            a = self.rv(args[0])
            if a[0] == 'toks' or a[1][0] in ('str', 'strview'):
                return a
        raise Unsupported('std::string construction from %d arguments' % len(args))

    # ------------------------------------------------------------------ calls
    def callee_of(self, n):
        c = kids(n)[0]
        c = self._skip(c)
        while c.get('kind') == 'ImplicitCastExpr':
            c = self._skip(kids(c)[0])
        if c.get('kind') == 'DeclRefExpr':
            return c['referencedDecl'], None, c
        if c.get('kind') == 'MemberExpr':
            rid = c.get('referencedMemberDecl')
            rd = self.ast.byid.get(rid) or {'id': rid, 'name': c.get('name'), 'kind': 'CXXMethodDecl', 'type': c.get('type')}
            return rd, c, c
        raise Unsupported('callee expression %s' % c.get('kind'))

    def call(self, n):
        rd, mem, cexpr = self.callee_of(n)
        k = n['kind']
        args = list(kids(n))[1:]
        node = self.ast.byid.get(rd['id'])
        name = rd.get('name') or (node or {}).get('name')
        # object argument
        obj = None
        if mem is not None:
            b = kids(mem)[0]
            if mem.get('isArrow'):
                obj_ptr = self.rv(b)
                obj_t = obj_ptr[1][1] if obj_ptr[1][0] == 'ptr' else None
                obj = ('P', obj_ptr, self.ntype(b))
            else:
                obj = ('L', b, self.ntype(b))
        is_member_decl = (node or rd).get('kind') in ('CXXMethodDecl', 'CXXConversionDecl')
        if k == 'CXXOperatorCallExpr' and is_member_decl and obj is None and \
                not (node or {}).get('storageClass') == 'static':
            b = args[0]
            args = args[1:]
            obj = ('L', b, self.ntype(b))
        # library entities
        in_phq = node is not None and rd['id'] in self.ast.byid and self._is_phq_decl(node)
        if not in_phq and name == 'operator()' and obj is not None and obj[2][0] == 'lib' and obj[2][1].startswith('std::hash<'):
            at = self.ntype(args[0])
            at = at[1] if at[0] == 'ref' else at
            if at[0] in ('f', 'i', 'bool', 'enum'):
                self.cur.libs.add('hash')
                return ('lib', SIZE_T, 'hash', [self.rv(args[0])])
            if node is not None and self.has_body(node):
                g = self.func_for(rd['id'])
                self.note_callee(g)
                return ('call', g.ret, g.cname, self.bind_args(g, node, args))
            raise Unsupported('std::hash of %s' % (at,))
        if not in_phq:
            return self.lib_call(n, name, rd, obj, args)
        special = self.special_call(n, node, name, obj, args)
        if special is not None:
            return special
        f = self.func_for(rd['id'])
        if f.outside:
            raise Unsupported('callee %s: %s' % (f.qualname, f.outside))
        self.note_callee(f)
        cargs = []
        if f.kind == 'method':
            cargs.append(self.obj_ptr(obj, f))
        if f.kind in ('method', 'ctor') and f.body is None and getattr(f, 'defaulted', False):
            # defaulted copy/move assignment: struct assignment
            if name == 'operator=':
                tgt = self.deref(cargs[0])
                src = self.rv(args[0])
                return ('asg', tgt[1], tgt, src)
            raise Unsupported('call to defaulted member %s' % f.qualname)
        cargs += self.bind_args(f, node, args)
        t = self.ntype(n)
        if f.ret_is_ref:
            return self.deref(('call', f.ret, f.cname, cargs))
        return ('call', f.ret, f.cname, cargs)

    def obj_ptr(self, obj, f=None):
        kind, b, bt = obj
        if kind == 'P':
            p = b
            src = bt[1] if bt[0] == 'ptr' else bt
        else:
            if b.get('valueCategory') == 'prvalue':
                t = self.ntype(b)
                tv = self.tmp(t)
                p = ('seq', ('ptr', t), [('assign', tv, self.rv(b))], ('addr', ('ptr', t), tv))
            else:
                p = self.addr_of(self.lv(b))
            src = bt
        if f is not None and f.record and src[0] == 'rec' and src[1] != f.record:
            l = self.to_base(self.deref(p), src, ('rec', f.record))
            p = self.addr_of(l)
        return p

    def _is_phq_decl(self, node):
        # declarations dumped under the PhQ filter that are not inside namespace std
        p = node
        seen = 0
        while p is not None and seen < 50:
            if p.get('kind') == 'NamespaceDecl':
                if p.get('name') == 'std' or p.get('name', '').startswith('__'):
                    return False
                if p.get('name') == 'PhQ':
                    return True
            p = self.ast.up(p)
            seen += 1
        return False

    def special_call(self, n, node, name, obj, args):
        """Token abstraction of the two text leaves: PhQ::Print(number) -> NUM(value), PhQ::Abbreviation(e) -> ABBR(e)."""
        if obj is None and node.get('kind') == 'FunctionDecl' and len(args) == 1:
            par = self.ast.up(node)
            ns = self.ast.up(par) if par is not None and par.get('kind') == 'FunctionTemplateDecl' else par
            if ns is not None and ns.get('kind') == 'NamespaceDecl' and ns.get('name') == 'PhQ':
                at = self.ntype(args[0])
                at = at[1] if at[0] == 'ref' else at
                if name == 'Print' and at[0] == 'f':
                    return ('toks', ('str',), [('NUM', self.rv(args[0]), at[1])])
                if name == 'Abbreviation' and at[0] == 'enum':
                    return ('toks', ('str',), [('ABBR', at[1], self.rv(args[0]))])
        return None

    def iterator_of(self, base):
        """base: expression `it.operator->()` (pointer to pair) -> IR value of the iterator."""
        b = self._skip(base)
        while b.get('kind') in ('ImplicitCastExpr', 'MaterializeTemporaryExpr'):
            b = self._skip(kids(b)[0])
        if b.get('kind') == 'CXXOperatorCallExpr':
            rd, mem, cexpr = self.callee_of(b)
            if (rd.get('name') or '') in ('operator->', 'operator*'):
                a = self._skip(list(kids(b))[1])
                while a.get('kind') in ('ImplicitCastExpr', 'MaterializeTemporaryExpr') and \
                        a.get('castKind', 'NoOp') in ('NoOp', 'UncheckedDerivedToBase', 'DerivedToBase'):
                    a = self._skip(kids(a)[0])
                return self.rv(a)
        return None

    def table_const(self, b):
        """b: DeclRefExpr naming a table variable -> ('table', ('map',..), tid)."""
        b = self._skip(b)
        while b.get('kind') == 'ImplicitCastExpr':
            b = self._skip(kids(b)[0])
        if b.get('kind') != 'DeclRefExpr':
            raise Unsupported('map object is not a named table (%s)' % b.get('kind'))
        rid = b['referencedDecl']['id']
        T = self.get_tables()
        if rid not in T.by_id:
            raise Unsupported('table %s has no initialiser in this TU' % b['referencedDecl'].get('name'))
        name, args = T.by_id[rid]
        return ('table', self.ntype(b), '%s<%s>' % (name, ', '.join(args)))

    def get_tables(self):
        if getattr(self, '_tables', None) is None:
            from .tables import Tables
            self._tables = Tables(self)
        return self._tables

    MATH1 = {'sqrt', 'acos', 'cbrt', 'exp', 'log', 'log2', 'log10', 'abs', 'fabs', 'sqrtf', 'sqrtl', 'acosf', 'acosl',
             'asin', 'atan', 'cos', 'sin', 'tan'}

    def lib_call(self, n, name, rd, obj, args):
        t = self.ntype(n)
        cat = n.get('valueCategory')
        if obj is not None:
            kind, b, bt = obj
            base_t = bt[1] if bt[0] in ('ptr', 'ref') else bt
            if base_t[0] == 'sarr':
                l = self.deref(b) if kind == 'P' else self.lv(b) if b.get('valueCategory') != 'prvalue' else None
                if l is None:
                    raise Unsupported('member call on std::array prvalue')
                if name == 'operator[]' or name == 'at':
                    return ('index', base_t[1], l, self.rv(args[0]))
                if name == 'data':
                    return ('addr', ('ptr', base_t[1]), ('index', base_t[1], l, ('const', SIZE_T, 0)))
                if name == 'size':
                    return ('const', SIZE_T, base_t[2])
                if name == 'operator=':
                    return ('asg', base_t, l, self.rv(args[0]))
            if base_t[0] == 'opt':
                l = self.deref(b) if kind == 'P' else self.lv(b) if b.get('valueCategory') != 'prvalue' else self.rv(b)
                if name in ('has_value', 'operator bool'):
                    return ('opthas', BOOL, l)
                if name in ('value', 'operator*'):
                    return ('optval', base_t[1], l)
            if base_t[0] == 'vec':
                l = self.deref(b) if kind == 'P' else self.lv(b)
                if name == 'data':
                    return ('lib', ('ptr', base_t[1]), 'vec_data', [self.addr_of(l)])
                if name == 'size':
                    return ('lib', SIZE_T, 'vec_size', [self.addr_of(l)])
                if name in ('operator[]', 'at', 'front', 'back'):
                    # element access: the library precondition index < size() travels with the access (checked where the C is verified)
                    if name == 'front':
                        idx = ('const', SIZE_T, 0)
                    elif name == 'back':
                        idx = ('bin', SIZE_T, '-', ('lib', SIZE_T, 'vec_size', [self.addr_of(l)]), ('const', SIZE_T, 1))
                    else:
                        idx = self.rv(args[0])
                    return ('deref', base_t[1], ('lib', ('ptr', base_t[1]), 'vec_elem', [self.addr_of(l), idx]))
                if name == 'empty':
                    return ('bin', BOOL, '==', ('lib', SIZE_T, 'vec_size', [self.addr_of(l)]), ('const', SIZE_T, 0))
            if base_t[0] == 'map':
                tbl = self.table_const(b)
                self.cur.libs.add('table:' + tbl[2])
                self.cur.last_table = tbl
                if name == 'find':
                    return ('lib', ('iter',), 'table_find', [tbl, self.rv(args[0])])
                if name in ('cend', 'end'):
                    return ('lib', ('iter',), 'table_end', [tbl])
                if name == 'at':
                    return ('lib', t if t[0] != 'ref' else t[1], 'table_at', [tbl, self.rv(args[0])])
                raise Unsupported('std::map member %s' % name)
            if base_t[0] == 'fn' and name == 'operator()':
                fv = self.rv(b) if kind == 'L' else self.deref(b)
                if fv[0] == 'lib' and fv[2] == 'iter_second' and fv[3][0][0] == 'var' and fv[3][0][2] in getattr(self, 'iter_inits', {}):
                    fv = (fv[0], fv[1], fv[2], [self.iter_inits[fv[3][0][2]]] + list(fv[3][1:]))
                if fv[0] == 'lib' and fv[2] == 'iter_second' and fv[3][0][0] == 'lib' and fv[3][0][2] == 'table_find':
                    tbl, key = fv[3][0][3]
                    T = self.get_tables()
                    nm, targs = tbl[2].split('<', 1)
                    rows = T.rows(nm, tuple(x.strip() for x in split_targs(targs[:-1])))
                    for kk, vv in rows:
                        if vv[0] != 'func':
                            raise Unsupported('dispatch table %s row is not a function' % tbl[2])
                        g = self.func_for(vv[1])
                        if g.outside:
                            raise Unsupported('dispatch target %s: %s' % (g.qualname, g.outside))
                        self.note_callee(g)
                    return ('lib', t, 'table_dispatch', [tbl, key] + [self.rv(a) for a in args])
                raise Unsupported('std::function call that is not TABLE.find(k)->second(...)')
            if base_t[0] == 'iter':
                raise Unsupported('iterator member %s' % name)
            if base_t[0] in ('str', 'strview', 'ostream') or (base_t[0] == 'lib'):
                return self.str_call(n, name, obj, args)
            raise Unsupported('library member %s on %s' % (name, tstr(base_t)))
        if not args and t[0] == 'f' and name in ('epsilon', 'min', 'max', 'lowest', 'denorm_min'):
            # std::numeric_limits<T>::... of the floating type returned
            p, emin, emax = {'float': (24, -126, 127), 'double': (53, -1022, 1023), 'long double': (64, -16382, 16383)}[t[1]]
            two = Fraction(2)
            val = {'epsilon': two ** (1 - p), 'min': two ** emin, 'denorm_min': two ** (emin - p + 1),
                   'max': (two - two ** (1 - p)) * two ** emax, 'lowest': -(two - two ** (1 - p)) * two ** emax}[name]
            return ('const', t, val, 'std::numeric_limits<%s>::%s()' % (t[1], name))
        if name in ('max', 'min', 'fmax', 'fmin') and len(args) == 2 and t[0] in ('f', 'i'):
            a, b = self.rv(args[0]), self.rv(args[1])
            # std::max(a, b) = (a < b) ? b : a ; std::min(a, b) = (b < a) ? b : a
            if name in ('max', 'fmax'):
                return ('cond', t, ('bin', BOOL, '<', a, b), b, a)
            return ('cond', t, ('bin', BOOL, '<', b, a), b, a)
        # further <cmath>/<algorithm> functions, desugared into the operations the two back ends already know (over the reals
        # these are the functions' definitions; bit-level differences of hypot/fma from the spelled-out expression are not modelled)
        if name in ('isnan', 'isinf', 'isfinite') and len(args) == 1:
            # classification predicates stay library calls: over the reals every value is finite and not NaN (REAL obligations
            # exclude overflow by assumption), bit-precisely they are CBMC's own predicates
            self.cur.libs.add(name)
            return ('lib', BOOL, name, [self.rv(args[0])])
        if name == 'clamp' and len(args) == 3 and t[0] in ('f', 'i'):
            v, lo, hi = self.rv(args[0]), self.rv(args[1]), self.rv(args[2])
            return ('cond', t, ('bin', BOOL, '<', v, lo), lo, ('cond', t, ('bin', BOOL, '<', hi, v), hi, v))
        if name in ('hypot', 'hypotf', 'hypotl') and len(args) == 2 and t[0] == 'f':
            self.cur.libs.add('hypot')
            return ('lib', t, 'hypot', [self.rv(args[0]), self.rv(args[1])])
        if name in ('fma', 'fmaf', 'fmal') and len(args) == 3 and t[0] == 'f':
            a, b, c = self.rv(args[0]), self.rv(args[1]), self.rv(args[2])
            return ('bin', t, '+', ('bin', t, '*', a, b), c)
        if name in ('copysign', 'copysignf', 'copysignl') and len(args) == 2 and t[0] == 'f':
            a, b = self.rv(args[0]), self.rv(args[1])
            self.cur.libs.add('abs')
            mag = ('lib', t, 'abs', [a])
            return ('cond', t, ('bin', BOOL, '<', b, ('const', t, 0)), ('un', t, '-', mag), mag)
        if name in self.MATH1 and len(args) == 1:
            a = self.rv(args[0])
            base = {'sqrtf': 'sqrt', 'sqrtl': 'sqrt', 'acosf': 'acos', 'acosl': 'acos', 'fabs': 'abs'}.get(name, name)
            self.cur.libs.add(base)
            return ('lib', t, base, [a])
        if name in ('pow', 'powf', 'powl') and len(args) == 2:
            self.cur.libs.add('pow')
            return ('lib', t, 'pow', [self.rv(args[0]), self.rv(args[1])])
        if name in ('move', 'forward') and len(args) == 1:
            return self.lv(args[0]) if cat != 'prvalue' else self.rv(args[0])
        if name in ('operator==', 'operator!=') and len(args) == 2 and self.ntype(args[0])[0] == 'iter':
            return ('bin', BOOL, name[-2:], self.rv(args[0]), self.rv(args[1]))
        if name in ('operator+', 'operator<<', 'to_string', 'operator==', 'operator!=', 'setprecision'):
            return self.str_call(n, name, obj, args)
        raise Unsupported('library function %s %s' % (name, rd.get('type', {}).get('qualType')))

    def str_call(self, n, name, obj, args):
        t = self.ntype(n)
        if obj is not None:
            kind, b, bt = obj
            base_t = bt[1] if bt[0] in ('ptr', 'ref') else bt
            if base_t[0] in ('str', 'strview'):
                core = self._skip(b)
                while core.get('kind') in ('ImplicitCastExpr',) and core.get('castKind') == 'NoOp':
                    core = self._skip(kids(core)[0])
                is_var = core.get('kind') == 'DeclRefExpr'
                if name in ('append', 'operator+='):
                    arg = self.rv(args[0])
                    if is_var:
                        l = self.declref(core)
                        return ('asg', ('str',), l, self.cat(l, arg))
                    return self.cat(self.rv(b), arg)
                if name == 'empty':
                    return ('lib', BOOL, 'str_empty', [self.rv(b)])
                if name in ('operator basic_string_view', 'operator std::basic_string_view<char, std::char_traits<char>>', 'c_str', 'data'):
                    return self.rv(b)
                if name.startswith('operator ') and 'string_view' in name:
                    return self.rv(b)
                raise Unsupported('std::string member %s' % name)
            if base_t[0] == 'ostream':
                sp = self.deref(b) if kind == 'P' else self.lv(b)
                if name == 'str':
                    return ('lib', ('str',), 'os_str', [self.addr_of(sp)])
                if name == 'operator<<':
                    return self.os_put(sp, args[0])
                raise Unsupported('ostream member %s' % name)
            raise Unsupported('library member %s on %s' % (name, tstr(base_t)))
        if name == 'operator+' and len(args) == 2:
            return self.cat(self.rv(args[0]), self.rv(args[1]))
        if name == 'to_string' and len(args) == 1:
            return ('toks', ('str',), [('INT', self.rv(args[0]))])
        if name == 'operator<<' and len(args) == 2 and self.ntype(args[0])[0] == 'ostream':
            return self.os_put(self.lv(args[0]), args[1])
        if name == 'setprecision' and len(args) == 1:
            return ('lib', ('lib', '_Setprecision'), 'setprecision', [self.rv(args[0])])
        raise Unsupported('string operation %s' % name)

    def os_put(self, stream_l, argnode):
        """stream << x : returns the stream lvalue after recording what was inserted."""
        a = self._skip(argnode)
        core = a
        while core.get('kind') == 'ImplicitCastExpr':
            core = self._skip(kids(core)[0])
        sp = self.addr_of(stream_l)
        OS = ('ostream',)
        if core.get('kind') == 'DeclRefExpr' and core['referencedDecl'].get('kind') == 'FunctionDecl':
            mn = core['referencedDecl'].get('name')
            if mn not in ('fixed', 'scientific'):
                raise Unsupported('stream manipulator %s' % mn)
            return self.deref(('lib', ('ptr', OS), 'os_manip', [sp, ('const', INT, 1 if mn == 'fixed' else 2)]))
        v = self.rv(a)
        vt_ = v[1]
        if vt_[0] == 'lib' and '_Setprecision' in vt_[1]:
            return self.deref(('lib', ('ptr', OS), 'os_prec', [sp, v[3][0]]))
        if vt_[0] == 'f':
            return self.deref(('lib', ('ptr', OS), 'os_num', [sp, v]))
        if vt_[0] in ('i', 'bool'):
            return self.deref(('lib', ('ptr', OS), 'os_int', [sp, v]))
        if vt_[0] in ('str', 'strview') or v[0] == 'toks':
            return self.deref(('lib', ('ptr', OS), 'os_str_put', [sp, v]))
        raise Unsupported('stream insertion of %s' % (vt_,))
