#!/bin/sh
# tools_seed.sh <property id> <seed name> <worktree>: copies a seeded change into /verif/seeded/<name>/, verifies the
# demonstration on the original and on the changed headers, applies the patch to /repo, runs the property's
# quick check, and reverts /repo. The evidence file of the property is saved and restored, so that a run on the
# changed tree never leaves its (violating) record behind in /verif/evidence.
set -u
ID=$1; NAME=$2; WT=$3
D=/verif/seeded/$NAME
mkdir -p $D
cp $WT/seed/patch.diff $D/patch.diff
cp $WT/seed/demo.cpp $D/demo.cpp 2>/dev/null
cp $WT/seed/notes.txt $D/notes.txt 2>/dev/null
cd /repo
git status --short | grep -v '^??' && { echo "repo not clean"; exit 3; }
g++ -std=c++17 -I/repo/include $D/demo.cpp -o /var/tmp/p/demo_orig 2>$D/demo_orig_build.log && /var/tmp/p/demo_orig > $D/demo_orig.out 2>&1; echo "demo on original: exit $?"
git apply $D/patch.diff || { echo "patch does not apply"; exit 3; }
g++ -std=c++17 -I/repo/include $D/demo.cpp -o /var/tmp/p/demo_seed 2>$D/demo_seed_build.log && /var/tmp/p/demo_seed > $D/demo_seed.out 2>&1; echo "demo on seeded: exit $?"
cd /verif
mkdir -p /var/tmp/p; cp evidence/$ID.json /var/tmp/p/evidence_seed_keep_$ID.json 2>/dev/null
bin/phqv $ID --tier quick > $D/check.log 2>&1; RC=$?
cp evidence/$ID.json $D/evidence_seeded.json 2>/dev/null
rm -f evidence/$ID.json; mv /var/tmp/p/evidence_seed_keep_$ID.json evidence/$ID.json 2>/dev/null
echo "check $ID exit=$RC"; grep -c VIOLATION $D/check.log; grep VIOLATION $D/check.log | head -5 | cut -c1-160
git -C /repo checkout -- . 
git -C /repo status --short | grep -v '^??'
rm -f /var/tmp/p/demo_orig /var/tmp/p/demo_seed
