#!/bin/sh
# Re-runs the quick check of each named seed's property against the seeded tree (like tools_recheck.sh), keeping the committed
# evidence files untouched (they are saved and restored), and appends one line per seed to seeded/RECHECK.txt.
cd /verif
rm -rf /var/tmp/p/evidence_keep; cp -r evidence /var/tmp/p/evidence_keep
for NAME in "$@"; do
  D=/verif/seeded/$NAME
  ID=$(echo $NAME | cut -d- -f1)
  git -C /repo status --short | grep -v '^??' && { echo "repo not clean"; break; }
  git -C /repo apply $D/patch.diff || { echo "$NAME: patch does not apply" >> seeded/RECHECK.txt; continue; }
  bin/phqv $ID --tier quick > $D/check.log 2>&1; RC=$?
  git -C /repo checkout -- .
  echo "$(date +%F_%H:%M) $NAME: exit $RC; $(grep -c '^VIOLATION' $D/check.log) VIOLATION lines, $(grep -c 'no-failing-input-found' $D/check.log) without failing input" | tee -a seeded/RECHECK.txt
done
cp /var/tmp/p/evidence_keep/*.json evidence/
git -C /repo status --short | grep -v '^??'
