#!/usr/bin/env python3
"""tools_check_evidence.py: run before every commit of /verif/evidence.  Every evidence file named in MANIFEST.json
must validate against /root/.vp/EVIDENCE.schema.json (when jsonschema is importable), be the record of a quiet run
(violations == 0) and, for a proof-level claim, have coverage.discharged == coverage.obligations > 0.  Exit 1 and
one line per problem otherwise: a record left behind by a run on a seeded (changed) tree must not be committed."""
import json, os, sys
HERE = os.path.dirname(os.path.abspath(__file__))
man = json.load(open(os.path.join(HERE, 'MANIFEST.json')))
schema = None
try:
    import jsonschema
    schema = json.load(open('/root/.vp/EVIDENCE.schema.json'))
except Exception:
    pass
bad = 0
for c in man['checks']:
    pid, path = c['property_id'], os.path.join(HERE, c['evidence_file'])
    try:
        e = json.load(open(path))
    except Exception as x:
        print(f'{pid}: cannot read {path}: {x}'); bad += 1; continue
    probs = []
    if schema is not None:
        for err in jsonschema.Draft202012Validator(schema).iter_errors(e):
            probs.append('schema: ' + err.message[:120])
    cov = e.get('coverage', {})
    if e.get('property_id') != pid: probs.append('property_id mismatch')
    if e.get('tier') != 'quick': probs.append(f"tier {e.get('tier')} (commit the quick-tier record)")
    if e.get('level') != c['level_claimed']['category']: probs.append('level differs from MANIFEST')
    if e.get('violations', 0) != 0: probs.append(f"violations={e.get('violations')}")
    if e.get('level') == 'proof':
        if not cov.get('obligations'): probs.append('no obligations')
        if cov.get('discharged') != cov.get('obligations'):
            probs.append(f"discharged ({cov.get('discharged')}) != obligations ({cov.get('obligations')})")
    if not cov.get('samples'): probs.append('no samples')
    for p in probs: print(f'{pid}: {p}')
    bad += bool(probs)
print(f'{len(man["checks"])} evidence files checked, {bad} with problems' + ('' if schema else ' (schema validation skipped: jsonschema not importable)'))
sys.exit(1 if bad else 0)
