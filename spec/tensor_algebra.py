"""Textbook index formulas of three-dimensional Cartesian tensor algebra, written once over the
3-vector / 3x3 embedding (independent oracle for C09; source: any continuum-mechanics text, e.g.
Gurtin, "An Introduction to Continuum Mechanics", ch. 1).

All functions work over the term algebra of phqv.symex (mk/num), i.e. over exact real arithmetic.
"""
from phqv.symex import mk, num, neg


def add(*xs):
    r = num(0)
    for x in xs:
        r = mk('+', r, x)
    return r


def mul(*xs):
    r = num(1)
    for x in xs:
        r = mk('*', r, x)
    return r


def levi(i, j, k):
    return ((i - j) * (j - k) * (k - i)) // 2


# embeddings ---------------------------------------------------------------------------------------
def embed_vector(shape, leaves):
    """shape: 'PlanarVector' (x,y) | 'Vector' (x,y,z) -> 3 components."""
    if shape == 'PlanarVector':
        return [leaves[0], leaves[1], num(0)]
    if shape == 'Vector':
        return list(leaves)
    raise KeyError(shape)


def embed_dyad(shape, leaves):
    """shape: 'SymmetricDyad' (xx,xy,xz,yy,yz,zz) | 'Dyad' (row major) -> 3x3."""
    if shape == 'SymmetricDyad':
        xx, xy, xz, yy, yz, zz = leaves
        return [[xx, xy, xz], [xy, yy, yz], [xz, yz, zz]]
    if shape == 'Dyad':
        return [list(leaves[0:3]), list(leaves[3:6]), list(leaves[6:9])]
    raise KeyError(shape)


# index formulas -----------------------------------------------------------------------------------
def dot(a, b):
    return add(*[mul(a[i], b[i]) for i in range(3)])


def cross(a, b):
    out = []
    for i in range(3):
        terms = []
        for j in range(3):
            for k in range(3):
                e = levi(i, j, k)
                if e:
                    t = mul(a[j], b[k])
                    terms.append(t if e > 0 else neg(t))
        out.append(add(*terms))
    return out


def dyadic(a, b):
    return [[mul(a[i], b[j]) for j in range(3)] for i in range(3)]


def trace(A):
    return add(A[0][0], A[1][1], A[2][2])


def det(A):
    terms = []
    for i in range(3):
        for j in range(3):
            for k in range(3):
                e = levi(i, j, k)
                if e:
                    t = mul(A[0][i], A[1][j], A[2][k])
                    terms.append(t if e > 0 else neg(t))
    return add(*terms)


def transpose(A):
    return [[A[j][i] for j in range(3)] for i in range(3)]


def minor(A, i, j):
    r = [x for x in range(3) if x != i]
    c = [x for x in range(3) if x != j]
    return mk('-', mul(A[r[0]][c[0]], A[r[1]][c[1]]), mul(A[r[0]][c[1]], A[r[1]][c[0]]))


def cofactors(A):
    return [[minor(A, i, j) if (i + j) % 2 == 0 else neg(minor(A, i, j)) for j in range(3)] for i in range(3)]


def adjugate(A):
    return transpose(cofactors(A))


def matmul(A, B):
    return [[add(*[mul(A[i][k], B[k][j]) for k in range(3)]) for j in range(3)] for i in range(3)]


def matvec(A, v):
    return [add(*[mul(A[i][k], v[k]) for k in range(3)]) for i in range(3)]


def scale(X, s, op='*'):
    def one(x):
        # a structural zero of an embedding (z of a planar vector) stays zero under scaling
        if x == num(0):
            return x
        return mk(op, x, s)
    if isinstance(X[0], list):
        return [[one(x) for x in row] for row in X]
    return [one(x) for x in X]


def madd(A, B, op='+'):
    if isinstance(A[0], list):
        return [[mk(op, a, b) for a, b in zip(ra, rb)] for ra, rb in zip(A, B)]
    return [mk(op, a, b) for a, b in zip(A, B)]


def identity():
    return [[num(1 if i == j else 0) for j in range(3)] for i in range(3)]
