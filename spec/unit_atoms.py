"""Independent oracle for unit symbols: exact SI magnitude (as coefficient * PI^k, a Fraction and an
integer k) and the 7-exponent dimension vector (T, L, M, I, Theta, N, J) of every atom that occurs in
phq's unit symbols, plus the grammar that expands a composite symbol.

Sources: BIPM SI Brochure 9th ed. (2019) for base/named units, prefixes and the exact values of e and
N_A; NIST SP 811 (2008) App. B for inch = 0.0254 m, foot = 12 in, yard = 3 ft, mile = 5280 ft,
nautical mile = 1852 m, pound (avoirdupois) = 0.45359237 kg, standard gravity g0 = 9.80665 m/s^2,
pound-force = lbm * g0, slug = lbf s^2/ft, "slinch" = lbf s^2/in, degree Rankine = 5/9 K,
atm = 101325 Pa, bar = 1e5 Pa, poise = 0.1 Pa s, dyne = 1e-5 N, hectare = 1e4 m^2,
acre = 43560 ft^2, litre = 1e-3 m^3, thermochemical calorie = 4.184 J (IT calorie 4.1868 J listed as
admissible alternative), BTU (IT) = 1055.05585262 J (thermochemical 1054.3502645 J admissible),
IEC 80000-13 for binary prefixes and byte = 8 bit.

Nothing in this file is derived from the constants in phq's headers.
"""
from fractions import Fraction as Fr

T_, L_, M_, I_, TH_, N_, J_ = range(7)
ZERO = (0, 0, 0, 0, 0, 0, 0)


def dim(**kw):
    v = [0] * 7
    for k, e in kw.items():
        v['TLMIHNJ'.index(k)] = e
    return tuple(v)


class Q:
    """magnitude = coef * PI^pik (exact), dims = exponent 7-tuple, offset for affine temperature scales."""
    __slots__ = ('coef', 'pik', 'dims', 'offset')

    def __init__(self, coef, dims=ZERO, pik=0, offset=None):
        self.coef, self.dims, self.pik, self.offset = Fr(coef), tuple(dims), pik, offset

    def __mul__(self, o):
        return Q(self.coef * o.coef, tuple(a + b for a, b in zip(self.dims, o.dims)), self.pik + o.pik)

    def __truediv__(self, o):
        return Q(self.coef / o.coef, tuple(a - b for a, b in zip(self.dims, o.dims)), self.pik - o.pik)

    def __pow__(self, n):
        return Q(self.coef ** n, tuple(a * n for a in self.dims), self.pik * n)

    def __repr__(self):
        return 'Q(%s*pi^%d, %s%s)' % (self.coef, self.pik, self.dims, '' if self.offset is None else ', offset %s' % self.offset)

    def same_magnitude(self, o):
        return self.coef == o.coef and self.pik == o.pik and self.dims == o.dims and self.offset == o.offset


ONE = Q(1)
m = Q(1, dim(L=1))
s = Q(1, dim(T=1))
kg = Q(1, dim(M=1))
A = Q(1, dim(I=1))
K = Q(1, dim(H=1))
mol = Q(1, dim(N=1))
cd = Q(1, dim(J=1))
inch = Q(Fr('0.0254')) * m
ft = Q(12) * inch
yd = Q(3) * ft
mi = Q(5280) * ft
nmi = Q(1852) * m
lbm = Q(Fr('0.45359237')) * kg
g0 = Q(Fr('9.80665')) * m / s ** 2
N = kg * m / s ** 2
lbf = lbm * g0
slug = lbf * s ** 2 / ft
slinch = lbf * s ** 2 / inch
Pa = N / m ** 2
J = N * m
W = J / s
C = A * s
Hz = ONE / s
minute = Q(60) * s
hour = Q(3600) * s
rad = Q(1)
deg = Q(Fr(1, 180), pik=1)
rankine = Q(Fr(5, 9)) * K
e_charge = Q(Fr('1.602176634e-19')) * C
avogadro = Fr('6.02214076e23')

SI_PREFIX = {'n': Fr(1, 10 ** 9), 'μ': Fr(1, 10 ** 6), 'u': Fr(1, 10 ** 6), 'µ': Fr(1, 10 ** 6), 'm': Fr(1, 1000),
             'k': Fr(1000), 'M': Fr(10 ** 6), 'G': Fr(10 ** 9), 'T': Fr(10 ** 12), 'P': Fr(10 ** 15)}
BIN_PREFIX = {'ki': Fr(2 ** 10), 'Mi': Fr(2 ** 20), 'Gi': Fr(2 ** 30), 'Ti': Fr(2 ** 40), 'Pi': Fr(2 ** 50)}

# atoms that take SI prefixes
PREFIXABLE = {
    'm': m, 'g': Q(Fr(1, 1000)) * kg, 's': s, 'N': N, 'Pa': Pa, 'J': J, 'W': W, 'Hz': Hz, 'C': C, 'A': A,
    'mol': mol, 'eV': Q(Fr('1.602176634e-19')) * J, 'b': Q(1), 'B': Q(8), 'L': Q(Fr(1, 1000)) * m ** 3,
    'K': K,
}
CAL_VALUES = [Fr('4.184'), Fr('4.1868')]
BTU_VALUES = [Fr('1055.05585262'), Fr('1054.3502645'), Fr('1055.056'), Fr('1055.06')]

# atoms with a fixed spelling (checked before prefix decomposition)
FIXED = {
    'in': inch, 'ft': ft, 'yd': yd, 'mi': mi, 'nmi': nmi, 'mil': Q(Fr(1, 1000)) * inch,
    'dm': Q(Fr(1, 10)) * m, 'cm': Q(Fr(1, 100)) * m, 'min': minute, 'hr': hour, 'kn': nmi / hour,
    'lbm': lbm, 'lbf': lbf, 'slug': slug, 'slinch': slinch, 'dyn': Q(Fr(1, 10 ** 5)) * N,
    'ha': Q(10 ** 4) * m ** 2, 'ac': Q(43560) * ft ** 2, 'bar': Q(10 ** 5) * Pa, 'atm': Q(101325) * Pa,
    'P': Q(Fr(1, 10)) * Pa * s, 'e': e_charge, 'particles': Q(1 / avogadro) * mol,
    'rad': rad, 'sr': Q(1), 'deg': deg, 'arcmin': Q(Fr(1, 60)) * deg, 'arcsec': Q(Fr(1, 3600)) * deg,
    'rev': Q(2, pik=1), '°R': rankine, 'kg': kg,
}
# micro-inch: prefix on a non-SI atom, used by phq
FIXED['μin'] = Q(Fr(1, 10 ** 6)) * inch

TEMPERATURE_AFFINE = {   # only for Unit::Temperature (absolute scales); factor and offset in kelvin
    '°C': (Fr(1), Fr('273.15')),
    '°F': (Fr(5, 9), Fr('459.67') * Fr(5, 9)),
}
TEMPERATURE_DIFF = {'°C': K, '°F': rankine}


class OracleGap(Exception):
    pass


def atom(sym, alt=0):
    """Quantity of a single atom symbol; alt selects among admissible conventional values (cal, BTU)."""
    if sym in FIXED:
        return FIXED[sym]
    if sym in TEMPERATURE_DIFF:
        return TEMPERATURE_DIFF[sym]
    if sym == 'BTU':
        return Q(BTU_VALUES[alt % len(BTU_VALUES)]) * J
    if sym.endswith('cal'):
        pre = sym[:-3]
        if pre == '':
            return Q(CAL_VALUES[alt % len(CAL_VALUES)]) * J
        if pre in SI_PREFIX:
            return Q(SI_PREFIX[pre] * CAL_VALUES[alt % len(CAL_VALUES)]) * J
    if sym in PREFIXABLE:
        return PREFIXABLE[sym]
    for p, f in BIN_PREFIX.items():
        if sym.startswith(p) and sym[len(p):] in ('b', 'B'):
            return Q(f) * PREFIXABLE[sym[len(p):]]
    for p, f in SI_PREFIX.items():
        if sym.startswith(p) and sym[len(p):] in PREFIXABLE and len(sym) > len(p):
            return Q(f) * PREFIXABLE[sym[len(p):]]
    raise OracleGap('unknown unit atom %r' % sym)


def n_alternatives(symbol):
    if 'BTU' in symbol:
        return len(BTU_VALUES)
    if 'cal' in symbol:
        return len(CAL_VALUES)
    return 1


SEPS = ('·', '*', ' ', '⋅')


def parse(symbol, alt=0):
    """Expand a composite unit symbol: factors joined by '.'-like separators (multiply) and '/'
    (divide, left associative: a/b/c == a/(b*c)); factor := atom ['^' int]."""
    s_ = symbol.strip()
    if not s_:
        raise OracleGap('empty symbol')
    toks = []
    cur = ''
    op = '*'
    i = 0
    res = ONE
    first = True
    # tokenise into (op, factor)
    items = []
    while i < len(s_):
        ch = s_[i]
        if ch == '/' or ch in SEPS:
            if cur:
                items.append((op, cur))
                cur = ''
            elif not (ch == '/' and not items):
                if ch != ' ':
                    raise OracleGap('empty factor in %r' % symbol)
            op = '/' if ch == '/' else '*'
            i += 1
            continue
        cur += ch
        i += 1
    if cur:
        items.append((op, cur))
    if not items:
        raise OracleGap('no factors in %r' % symbol)
    for op, fac in items:
        if '^' in fac:
            a, e = fac.split('^', 1)
            e = e.strip('()')
            try:
                n = int(e.replace('−', '-'))
            except ValueError:
                raise OracleGap('exponent %r in %r' % (e, symbol))
        else:
            a, n = fac, 1
        q = atom(a, alt) ** n
        res = res * q if op == '*' else res / q
    return res


def conversion(unit_type, symbol, alt=0):
    """(A, pik, B): value_in_SI = A * PI^pik * x + B for a unit with this symbol (B != 0 only for the
    absolute temperature scales degC and degF of Unit::Temperature)."""
    if unit_type == 'Unit::Temperature' and symbol in TEMPERATURE_AFFINE:
        a, b = TEMPERATURE_AFFINE[symbol]
        return a, 0, b, dim(H=1)
    q = parse(symbol, alt)
    return q.coef, q.pik, Fr(0), q.dims
