"""Oracle for accepted *spellings* of units (C08): what physical magnitude a spelling denotes.

Extends spec/unit_atoms.py with English unit names (singular/plural, US/UK), ASCII fall-backs
(u for micro, deg for the degree sign) and atoms whose reading depends on the kind of quantity
(lb = pound-force or pound-mass, C = coulomb or degree Celsius, ' = arcminute or foot ...).  A
context-dependent atom is resolved only by the *declared dimension set* of the unit type: exactly one
reading must have those dimensions.  Nothing here is taken from phq's tables.
"""
import itertools, re
from fractions import Fraction as Fr
from . import unit_atoms as UA
from .unit_atoms import Q, OracleGap

NAMES = {
    # length
    'metre': UA.m, 'meter': UA.m, 'foot': UA.ft, 'feet': UA.ft, 'inch': UA.inch, 'inches': UA.inch, 'yard': UA.yd,
    'mile': UA.mi, 'nauticalmile': UA.nmi, 'micron': Q(Fr(1, 10 ** 6)) * UA.m,
    'thou': Q(Fr(1, 1000)) * UA.inch, 'thousandth': Q(Fr(1, 1000)) * UA.inch, 'milliinch': Q(Fr(1, 1000)) * UA.inch,
    'millinch': Q(Fr(1, 1000)) * UA.inch, 'milin': Q(Fr(1, 1000)) * UA.inch, 'mil': Q(Fr(1, 1000)) * UA.inch,
    'microinch': Q(Fr(1, 10 ** 6)) * UA.inch, 'uin': Q(Fr(1, 10 ** 6)) * UA.inch, 'μin': Q(Fr(1, 10 ** 6)) * UA.inch,
    'NM': UA.nmi,
    # time
    'second': UA.s, 'sec': UA.s, 'minute': UA.minute, 'min': UA.minute, 'hour': UA.hour, 'hr': UA.hour, 'h': UA.hour,
    # angle
    'radian': UA.rad, 'degree': UA.deg, 'deg': UA.deg, '°': UA.deg, 'arcminute': Q(Fr(1, 60)) * UA.deg,
    'arcsecond': Q(Fr(1, 3600)) * UA.deg, 'am': Q(Fr(1, 60)) * UA.deg, 'as': Q(Fr(1, 3600)) * UA.deg,
    'arcs': Q(Fr(1, 3600)) * UA.deg, 'arcsec': Q(Fr(1, 3600)) * UA.deg, 'arcmin': Q(Fr(1, 60)) * UA.deg,
    'revolution': Q(2, pik=1), 'rev': Q(2, pik=1), 'steradian': Q(1), 'sr': Q(1),
    # speed / pressure / energy
    'knot': UA.nmi / UA.hour, 'kn': UA.nmi / UA.hour, 'atmosphere': Q(101325) * UA.Pa,
    'psi': UA.lbf / UA.inch ** 2, 'psf': UA.lbf / UA.ft ** 2,
    # memory
    'bit': Q(1), 'byte': Q(8),
    # temperature (as an interval / scale factor; the absolute scales are handled by the caller)
    'degK': UA.K, '°K': UA.K, 'kelvin': UA.K, 'degR': UA.rankine, 'rankine': UA.rankine,
    'degC': UA.K, 'celsius': UA.K, 'degF': UA.rankine, 'fahrenheit': UA.rankine, '°C': UA.K, '°F': UA.rankine,
    'pound': None,
}
PLURAL_S = {'metre', 'meter', 'yard', 'mile', 'nauticalmile', 'micron', 'thou', 'thousandth', 'mil', 'second', 'minute',
            'hour', 'radian', 'degree', 'arcminute', 'arcsecond', 'revolution', 'knot', 'bit', 'byte', 'min', 'hr',
            'microinch', 'steradian', 'sec'}
PREFIX_NAMES = {'nano': Fr(1, 10 ** 9), 'micro': Fr(1, 10 ** 6), 'milli': Fr(1, 1000), 'centi': Fr(1, 100), 'deci': Fr(1, 10),
                'kilo': Fr(1000), 'mega': Fr(10 ** 6), 'giga': Fr(10 ** 9), 'tera': Fr(10 ** 12), 'peta': Fr(10 ** 15),
                'kibi': Fr(2 ** 10), 'mebi': Fr(2 ** 20), 'gibi': Fr(2 ** 30), 'tebi': Fr(2 ** 40), 'pebi': Fr(2 ** 50)}
PREFIXED_NAME_BASES = {'metre', 'meter', 'second', 'bit', 'byte', 'gram', 'inch'}

# atoms with more than one conventional reading: resolved by the unit type's dimension set
AMBIGUOUS = {
    'lb': [UA.lbf, UA.lbm], 'lbs': [UA.lbf, UA.lbm],
    'C': [UA.C, UA.K], 'F': [UA.rankine], 'R': [UA.rankine], 'K': [UA.K],
    "'": [Q(Fr(1, 60)) * UA.deg, UA.ft], '"': [Q(Fr(1, 3600)) * UA.deg, UA.inch],
    'Cal': [Q(4184) * UA.J, Q(Fr('4186.8')) * UA.J], 'btu': [Q(v) * UA.J for v in UA.BTU_VALUES],
    'm': [UA.m], 'P': [Q(Fr(1, 10)) * UA.Pa * UA.s],
}


def readings(tok):
    """All admissible quantities for one atom token of a spelling."""
    if tok in AMBIGUOUS:
        return list(AMBIGUOUS[tok])
    out = []
    try:
        alts = UA.n_alternatives(tok)
        for a in range(alts):
            out.append(UA.atom(tok, a))
        return out
    except OracleGap:
        pass
    t = tok
    if t[:1].isupper() and t not in NAMES and len(t) > 4:
        t = t[0].lower() + t[1:]
    if t in NAMES and NAMES[t] is not None:
        return [NAMES[t]]
    if t.endswith('s') and t[:-1] in PLURAL_S and t[:-1] in NAMES:
        return [NAMES[t[:-1]]]
    if t.endswith('es') and t[:-2] in NAMES and NAMES[t[:-2]] is not None:
        return [NAMES[t[:-2]]]
    for p, f in PREFIX_NAMES.items():
        if t.startswith(p):
            rest = t[len(p):]
            base = rest[:-1] if rest.endswith('s') and rest[:-1] in PREFIXED_NAME_BASES else rest
            if base.endswith('e') and base[:-1] in PREFIXED_NAME_BASES:   # "inches"
                base = base[:-1]
            if base in PREFIXED_NAME_BASES:
                b = {'gram': Q(Fr(1, 1000)) * UA.kg}.get(base) or NAMES.get(base)
                if b is not None:
                    return [Q(f) * b]
    # ASCII micro
    if t.startswith('u') and len(t) > 1:
        try:
            return [Q(Fr(1, 10 ** 6)) * UA.PREFIXABLE[t[1:]]] if t[1:] in UA.PREFIXABLE else []
        except KeyError:
            pass
    return []


TOKEN_RE = re.compile(r'\s*(/|\^|\(|\)|[·*⋅]|-?\d+|[^\s/^()·*⋅\d,-]+|-|,)')


def tokenize(s):
    s = s.replace('nautical miles', 'nauticalmiles').replace('nautical mile', 'nauticalmile')
    toks = TOKEN_RE.findall(s)
    if ''.join(toks).replace(' ', '') != re.sub(r'\s+', '', s):
        raise OracleGap('cannot tokenise spelling %r' % s)
    return toks


def parse_spelling(s):
    """-> list of (op, atom token, exponent): op in '*', '/'.  Separators (middle dot, *, space, '-',
    ', ') multiply; '/' divides and is left associative (a/b/c == a/(b c), a/b*c == (a/b) c);
    parentheses group; exponent by '^n' or a trailing integer (m2, s^2)."""
    toks = tokenize(s)
    pos = [0]

    def expr(sign):
        items = []
        op = 1
        while pos[0] < len(toks):
            t = toks[pos[0]]
            if t == ')':
                break
            if t == '/':
                op = -1
                pos[0] += 1
                continue
            if t in ('·', '*', '⋅', '-', ','):
                op = 1
                pos[0] += 1
                continue
            if t == '(':
                pos[0] += 1
                inner = expr(sign * op)
                if pos[0] >= len(toks) or toks[pos[0]] != ')':
                    raise OracleGap('unbalanced parentheses in %r' % s)
                pos[0] += 1
                e = exponent()
                items += [(tok, ee * e) for tok, ee in inner]
                op = 1
                continue
            if t == '^':
                raise OracleGap('dangling ^ in %r' % s)
            if re.match(r'^-?\d+$', t):
                if t == '1':
                    pos[0] += 1
                    continue
                raise OracleGap('numeric factor %r in %r' % (t, s))
            pos[0] += 1
            e = exponent()
            items.append((t, sign * op * e))
            op = 1
        return items

    def exponent():
        if pos[0] < len(toks) and toks[pos[0]] == '^':
            if pos[0] + 1 >= len(toks) or not re.match(r'^-?\d+$', toks[pos[0] + 1]):
                raise OracleGap('exponent in %r' % s)
            e = int(toks[pos[0] + 1])
            pos[0] += 2
            return e
        if pos[0] < len(toks) and re.match(r'^\d+$', toks[pos[0]]):
            e = int(toks[pos[0]])
            pos[0] += 1
            return e
        return 1
    items = expr(1)
    if pos[0] != len(toks):
        raise OracleGap('unbalanced parentheses in %r' % s)
    if not items:
        raise OracleGap('no factors in %r' % s)
    return [('*' if e > 0 else '/', tok, abs(e)) for tok, e in items]


def magnitudes(spelling, dims):
    """Set of admissible (coef, pik) magnitudes of a spelling among readings with dimension set dims."""
    items = parse_spelling(spelling)
    choices = []
    for op, tok, e in items:
        r = readings(tok)
        if not r:
            raise OracleGap('unknown atom %r in spelling %r' % (tok, spelling))
        choices.append(r)
    out = set()
    anydim = set()
    for combo in itertools.product(*choices):
        q = UA.ONE
        for (op, tok, e), r in zip(items, combo):
            q = q * (r ** e) if op == '*' else q / (r ** e)
        anydim.add(q.dims)
        if q.dims == tuple(dims):
            out.add((q.coef, q.pik))
    return out, anydim


CELSIUS = {'°C', 'C', 'degC', 'celsius', 'Celsius'}
FAHRENHEIT = {'°F', 'F', 'degF', 'fahrenheit', 'Fahrenheit'}
