#!/bin/sh
# Runs every claimed check's thorough command on /repo (unchanged tree) and reports exit codes.
cd /verif
for id in $(python3 -c "import json; print(' '.join(c['property_id'] for c in json.load(open('MANIFEST.json'))['checks']))"); do
  start=$(date +%s)
  bin/phqv $id --tier thorough > .work/runthorough_$id.log 2>&1
  rc=$?
  echo "$id exit=$rc $(( $(date +%s) - start ))s $(tail -1 .work/runthorough_$id.log | cut -c1-150)"
done
