#!/bin/sh
# Confirms, in a scratch worktree with its own build directory, that each seeded change still compiles and passes
# the repository's existing test-suite.  Usage: tools_confirm_tests.sh <seed name>...
WT=/tmp/wt_confirm
if [ ! -d $WT ]; then git -C /repo worktree add -q --detach $WT HEAD; fi
git -C $WT checkout -q --detach $(git -C /repo rev-parse HEAD); git -C $WT checkout -- .
if [ ! -d $WT/_b ]; then cmake -G Ninja -S $WT -B $WT/_b -DPHYSICAL_QUANTITIES_PHQ_TEST=ON -DCMAKE_BUILD_TYPE=RelWithDebInfo > /dev/null; fi
for NAME in "$@"; do
  D=/verif/seeded/$NAME
  git -C $WT checkout -- .
  git -C $WT apply $D/patch.diff || { echo "$NAME: patch does not apply"; continue; }
  if cmake --build $WT/_b -j 8 > $D/tests_build.log 2>&1; then
    (cd $WT/_b && ctest -j8 --timeout 900 > $D/tests_ctest.log 2>&1)
    # the *.Performance tests compare wall-clock times and fail spuriously on a loaded machine: failed tests are re-run once, alone
    if ! grep -q '100% tests passed' $D/tests_ctest.log; then
      (cd $WT/_b && ctest --rerun-failed --timeout 900 > $D/tests_ctest_rerun.log 2>&1)
      echo "$NAME: first run: $(grep 'tests passed' $D/tests_ctest.log); failed tests re-run alone: $(grep 'tests passed' $D/tests_ctest_rerun.log)"
    fi
    echo "$NAME: build ok; $(grep 'tests passed' $D/tests_ctest.log)"
  else
    echo "$NAME: BUILD FAILED"
  fi
  tail -3 $D/tests_build.log > $D/tests_build.tail; rm -f $D/tests_build.log
  git -C $WT checkout -- .
done
