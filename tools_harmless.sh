#!/bin/sh
# Harmless-change control: applies each semantics-preserving patch of /verif/harmless to /repo, runs the checks named for it
# (they must all exit 0), and reverts /repo.  Usage: tools_harmless.sh [name-prefix ...]
cd /verif
run() { # name checks...
  N=$1; shift
  git -C /repo status --short | grep -v '^??' && { echo "repo not clean"; exit 3; }
  git -C /repo apply /verif/harmless/$N.diff || { echo "$N: patch does not apply"; return; }
  for ID in "$@"; do
    bin/phqv $ID --tier quick > .work/harmless_$N.$ID.log 2>&1; RC=$?
    echo "$N $ID exit=$RC $(grep -c '^VIOLATION' .work/harmless_$N.$ID.log) violations; $(tail -1 .work/harmless_$N.$ID.log | cut -c1-110)"
  done
  git -C /repo checkout -- .
}
sel() { [ $# -eq 0 ] && return 0; for p in "$@"; do case "$CUR" in $p*) return 0;; esac; done; return 1; }
CUR=H2;  sel "$@" && run H2-array-routines-index-loop C02 C20
CUR=H3;  sel "$@" && run H3-mileperhour-folded-constant C01 C07
CUR=H4;  sel "$@" && run H4-convert-named-iterator C01 C02 C20
CUR=H5;  sel "$@" && run H5-dyad-diveq-hoisted-divisor C04
CUR=H6;  sel "$@" && run H6-angle-magnitudes-commuted C11
CUR=H8;  sel "$@" && run H8-symdyad-eq-reversed-conjuncts C14
CUR=H9;  sel "$@" && run H9-elastic-ctor-equivalent-formula C12
CUR=H10; sel "$@" && run H10-print-manipulators-reordered C15
CUR=H11; sel "$@" && run H11-length-plus-via-compound C04 C03
CUR=H12; sel "$@" && run H12-value-in-unit-via-inplace C02 C15
CUR=H14; sel "$@" && run H14-vector-hash-other-constants C14
CUR=H16; sel "$@" && run H16-parsenumber-two-handlers C20
CUR=H17; sel "$@" && run H17-abbreviation-named-iterator C08 C20 C15
CUR=H18; sel "$@" && run H18-print-fabs C15
CUR=H19; sel "$@" && run H19-fluid-strainrate-times-half-over-mu C13
CUR=H20; sel "$@" && run H20-dynamic-pressure-equivalent-formula C18 C05 C03
CUR=H22; sel "$@" && run H22-converting-ctor-functional-cast C16
CUR=H23; sel "$@" && run H23-extra-correct-spelling C08
CUR=H24; sel "$@" && run H24-fahrenheit-times-five-ninths-in-type C01
git -C /repo status --short | grep -v '^??'
