#!/usr/bin/env python3
"""Regenerates MANIFEST.json from the table below (kept in one place so it stays valid)."""
import json
ids = [json.loads(l)['id'] for l in open('/verif/properties.jsonl')]
TECH = "contract-based deductive verification: clang-extracted C under CBMC code contracts (DFCC) + real-arithmetic contract obligations from the typed AST discharged by z3 nlsat"
NOTE_COMMON = ("Trusted: clang 14 front end; phqv C++->C/term lowering (must-fire rules, DESIGN.md 3.1); CBMC 6.11 + cvc5/MiniSat; z3 4.8.12/5.1.0. "
               "REAL obligations treat machine arithmetic as mathematical; IEEE obligations are bit-precise for float/double; x87 long double has no bit-precise obligation. libm sqrt assumed correctly rounded. ")
CLAIMED = {
 'C01': dict(
   text="Proof for all x and all 514 units: each per-unit ToStandard/FromStandard body (instantiated AST) equals, as a real function, the affine map A*pi^k*x+B obtained by expanding the unit's own abbreviation with an independent SI/NIST atom table (z3, exact rationals, pi symbolic); for each numeric type the same body with every constant sub-expression evaluated by exact IEEE emulation (incl. double rounding of long double literals) and (1+d) on the operations involving x stays within 8u of the exact map for all x (z3 nlsat); the run-time dispatch ConvertInPlace(x,from,to) selects for every enumerator in the declared range the routine of that enumerator and every lookup hits (CBMC contract, SAT); all ordered pairs follow by the composition lemma.",
   ref="DESIGN.md 5 C01",
   note="Underflow/overflow excluded (standard model); libm pow assumed correctly rounded (4 mass-density constants); unit oracle spec/unit_atoms.py hand-written from SI Brochure/NIST SP 811 (cal and BTU admit their conventional values). float/long double NOISY obligations run in the thorough tier."),
 'C07': dict(
   text="Proof over the finite configuration space (4 systems x 37 unit types, all 514 units): for every consistent unit the SI magnitude computed by the code's own ToStandard body (symbolic execution on exact rationals, pi symbolic) equals the product of the magnitudes of that system's base units raised to the declared dimension exponents; the standard system maps to the standard units; RelatedUnitSystem(u) == s iff u is the consistent unit of exactly {s} and ConsistentUnit(s) never throws, for every enumerator in the declared range (CBMC contracts over the extracted tables, symbolic enumerator).",
   ref="DESIGN.md 5 C07", note="std::map abstract function (first equal key wins) is a trusted mapping of the initialiser lists."),
 'C08': dict(
   text="Proof over all enumerators of the 39 enumeration types (ranges from the EnumDecls) and all ~2030 spelling rows: Abbreviation(e) hits and ParseEnumeration(Abbreviation(e)) == e for every e in range (CBMC contract, symbolic enumerator); abbreviations pairwise distinct; every unit has both conversion dispatch rows; every accepted spelling maps to an enumerator whose magnitude (exact rational, pi power) equals what an independent spelling oracle says the spelling denotes under the type's declared dimension set; ParseEnumeration(s) has a value iff s is an accepted spelling (interned strings).",
   ref="DESIGN.md 5 C08", note="unordered_map/map abstract function trusted; strings compared as interned ids (byte-wise equality); operator<< (streaming) token contract not yet included; spelling oracle spec/unit_spellings.py hand-written."),
 'C09': dict(
   text="Proof for all inputs: every tensor-algebra member and free operator of PlanarVector/Vector/SymmetricDyad/Dyad (instantiated bodies from clang's AST) equals the textbook index formula on the 3x3 embedding as a function over the reals (one z3 obligation per function/component group); Inverse*A==I and A*Inverse==I when det!=0; Inverse present iff computed determinant != 0 and each slot == adjugate/det bit-precisely (CBMC contract, callee contracts). Rounding ('few ulps') is not machine-checked: identities are over exact reals.",
   ref="DESIGN.md 5 C09"),
 'C14': dict(
   text="Proof for all non-NaN bit patterns (signed zeros and infinities included) of binary64 (thorough: binary32): each of the six comparison operators of every quantity class, the four vector/tensor classes and Dimensions equals the lexicographic order / equality of the stored components in declared order (CBMC contract per operator over the instantiated bodies, MiniSat); equal objects have equal hashes (2-safety CBMC harness over the extracted std::hash specialisations, std::hash<floating> as an uninterpreted function of the zero-canonicalised value).",
   ref="DESIGN.md 5 C14", note="Totality/transitivity of the lexicographic order itself is a mathematical fact, not re-proved per type. Constitutive-model classes not yet included. long double not run bit-precisely."),
 'C16': dict(
   text="Proof for all bit patterns: every converting constructor and converting assignment (member templates instantiated through the real overload resolution) of every quantity class and of the four vector/tensor classes stores, in each slot, exactly the IEEE cast of the same slot of the source and writes nothing else (CBMC contract with frame per member, float<-double and double<-float); (float)(double)x == x for all float x. A converting member that has no body because it does not compile is decided by the real compiler and reported as a violation.",
   ref="DESIGN.md 5 C16", note="Pairs with long double are not run bit-precisely (CBMC long double is binary128). Direction/PlanarDirection converting constructors re-normalise and are left to C10."),
 'C17': dict(
   text="Static facts decided by both compilers for all 92 quantity classes x float/double/long double (generated static_asserts: sizeof == N*sizeof(T) with N fixed by the shape of the base class, alignof, trivially copyable, standard layout); proof for all inputs (CBMC contracts with frames): Zero() has every component +0 exactly; Value()/MutableValue()/SetValue() of each base class and Set_*/Mutable_* of the tensor classes read, alias and write exactly the stored slot and nothing else.",
   ref="DESIGN.md 5 C17", note="Layout facts are compiler-decided static facts, not CBMC proofs. Accessor contracts are proved on one instantiation per base class template (the members are inherited unchanged)."),
 'C04': dict(
   text="Proof for all finite binary64 operands (thorough: binary32): every component-wise operator instance discovered from the instantiated classes (~1190: quantity op quantity, quantity op number, number * quantity, tensor kernels) returns in each slot exactly the IEEE result of (left slot) op (right slot) in written order; every compound assignment leaves old(a) op b and writes nothing but a (so any interleaving equals the chain of pure operators by induction); every constructor with an operator twin stores the identical value (CBMC contract per function, cvc5 back end).",
   ref="DESIGN.md 5 C04", note="NaN results unconstrained. Operator instances that are not component-wise (matrix-vector products, thermal strain) belong to C09/C18 and are listed in the evidence. std:: math overloads for dimensionless scalars are not yet under contract. x87 long double has no bit-precise obligation."),
 'C11': dict(
   text="Proof for all finite non-zero vectors in the non-overflowing range, binary32 and binary64: in each of the eight angle kernels the value passed to acos is within [-1,1] and not NaN and the stored angle is within [0, pi] (CBMC contracts; Magnitude and Dot are replaced by their own bit-precisely proved range contracts); the ~22 quantity-level angle constructors delegate to the kernel of their value type on their own stored vectors; the dot product is symmetric bit for bit; over the reals the acos argument equals a.b/(|a||b|), lies in [-1,1] (Cauchy-Schwarz) and is symmetric (z3).",
   ref="DESIGN.md 5 C11", note="libm acos contract assumed (range, NaN-freedom on [-1,1]). Directions are assumed to satisfy their representation invariant (C10). Agreement with atan2 to 1e-7 rad is not machine-checked. The defect found on the original tree (unclamped cosine -> NaN) is repaired by a fix: commit and recorded in known_findings.txt."),
 'C12': dict(
   text="Proof over the reals for all admissible materials (mu > 0, lambda >= 0): each of the 20 modulus-pair constructors, given the pair computed from (mu0, lambda0) by the identities of isotropic elasticity, stores exactly (mu0, lambda0) (including the two square-root constructors); each of the 7 accessors returns its identity in (mu, lambda), so rebuilding from any reported pair reproduces the model; every Stress overload equals 2 mu eps + lambda tr(eps) I and ignores the strain rate; every Strain overload inverts it; strain-rate-only arguments give zero; every pure virtual of ConstitutiveModel has exactly one overrider with identical signature (z3 nlsat on VCs generated from the instantiated AST).",
   ref="DESIGN.md 5 C12", note="REAL semantics: per-type rounding of the three overloads is not machine-checked. For the pair (lambda, nu) the round trip is required only for nu > 0 ((0,0) does not determine mu). AST taken from a scratch copy of include/ with the three forward-declaration defaults removed (clang rejects them). Thorough tier repeats for float and long double model types."),
 'C13': dict(
   text="Proof over the reals for all mu > 0, mu_b >= 0 and all symmetric tensors: every Stress(strain rate) overload of both Newtonian fluid models equals 2 mu D (+ mu_b tr(D) I), every StrainRate overload inverts it, strain-only and stress-only stubs return zero, the compressible model built from mu alone stores mu_b == 0, strain arguments are ignored, and every pure virtual has exactly one overrider (z3 nlsat on VCs generated from the instantiated AST). Linearity follows from equality with the linear form.",
   ref="DESIGN.md 5 C13", note="REAL semantics (rounding not machine-checked); same extraction note as C12."),
 'C18': dict(
   text="Proof over the reals for all positive scalar inputs and arbitrary tensors: each of the 29 definitional relations named by the property (existence checked against the instantiated AST) equals its textbook formula including the dimensionless constants: 1/2 rho v^2, 1/2 v^2, p + q, sqrt(K/rho) = sqrt(gamma p/rho) = sqrt(gamma R T) (as r >= 0, r^2 = ...), v/a, rho v L/mu, v L/nu, cp mu/k, nu/alpha, cp/cv, cp - cv (extensive and specific), k/(rho cp), mu/rho, 1/f, sym(grad u), sym(grad v), alpha dT, (beta dT/3) I, von Mises, sigma.n, -p I (z3 nlsat on VCs generated from the instantiated bodies).",
   ref="DESIGN.md 5 C18", note="REAL semantics: 'a few ulps' is not machine-checked (bodies have <= ~10 roundings). Formula table transcribed from the property statement (phqv/props/c18.py). Thorough tier repeats for float and long double instantiations."),
 'C03': dict(
   text="Proof over the reals for arbitrary positive rescalings s_T..s_J of the seven base units: for every relation discovered from the instantiated classes (~290 relation constructors, ~950 member operators, ~130 member functions, ~80 number*quantity operators) f(S(A) a, S(B) b, ...) == S(R) f(a, b, ...) with S(Q) = prod s_i^dim(Q)[i] and dim(Q) the dimension set the type declares (two symbolic executions of the instantiated body, z3 nlsat); for every * and / operator instance dim(result) == dim(left) +/- dim(right) (exact exponent arithmetic on the extracted RelatedDimensions).",
   ref="DESIGN.md 5 C03", note="REAL semantics. Scalar inputs are taken positive; angle-valued relations are covered by C11. Thorough tier repeats for float and long double instantiations."),
 'C05': dict(
   text="Proof over the reals for all positive inputs: for every pair of relation constructors discovered from the declared signatures with C from (A, B, ...) and A from (C, B, ...) (~400 pairs incl. one-argument and three-/four-argument families) the composition returns the original A wherever both relations are defined; planar -> 3-D -> planar embeddings of vectors, directions and every planar quantity are the identity and the embedded z component is exactly zero (z3 nlsat on VCs from the instantiated bodies).",
   ref="DESIGN.md 5 C05", note="REAL semantics: the 'few ulps' bound is not machine-checked (and cannot hold relative to a for additive pairs when a << b). Projections (3-D -> planar) are not required to be invertible. Compositions are required only where no divisor on the way is zero."),
 'C10': dict(
   text="Proof over the reals: every member of Direction / PlanarDirection that writes the stored vector (found by scanning the lowered bodies; the base classes expose no public writer) leaves |d|^2 == 1 or d == 0 - unit length for non-zero input, zero for zero input, parallel to and pointing the same way as the input, invariant under positive rescaling; for all 17 vector quantity types Magnitude() has the scalar type of the same declared dimension set and the Euclidean norm as value, typed accessors return the matching component, and Q(q.Magnitude(), q.Direction()) == q for |q| > 0 (z3 nlsat).  Bit-precise (CBMC contracts on Set): the zero vector gives exactly +0 components; each component keeps the sign of the input component.",
   ref="DESIGN.md 5 C10", note="The 'four ulps' constant and 'exactly for power-of-two factors' are NOT machine-checked (REAL semantics; 5 roundings on the normalisation path). The sign obligation uses the libm sqrt contract (r > 0 for x > 0) instead of CBMC's sqrt model."),
 'C15': dict(
   text="Proof for every value of float, double and long double: PhQ::Print<T> (instantiated body; ostringstream as a ghost record of notation/precision/items) inserts for x == 0 the literal 0 and otherwise the value once, in fixed notation with precision max_digits10+1-(1+floor(log10|x|)) for 0.001 <= |x| < 10000 and scientific with max_digits10 otherwise - decided exactly (the body only compares; z3 over the reals outside the intervals between each decimal threshold and the literal compared with, each shown by exact arithmetic to contain no value of the type); the largest value below each decade cannot carry into the next at the precision used (so exactly max_digits10+1 significant digits); Print/JSON/XML/YAML of the four tensor classes and all ten Dimensional*/Dimensionless* bases (76 forms, with and without unit) consist of exactly one number token per stored component in declared order (converted component-wise when a unit is given) plus literals and the abbreviation of that unit, JSON/XML skeletons parse; operator<< inserts exactly Print().",
   ref="DESIGN.md 5 C15, 12.5", note="Assumed library contracts: glibc prints p correctly rounded digits; strto* correctly rounded (parse-back). KNOWN FINDING (genuine, long double only, listed in known_findings.txt): Print<long double> compares with double literals 0.1, 0.01, 0.001, so long double values in [0.1, 0.1d) etc. get one digit too many / the wrong notation."),
}
REASONS = {'C19': "static-initialisation order is a property of the compilers' start-up schedule, not of any function's pre/postcondition; CBMC has no model of C++ dynamic initialisation and contracts cannot express it (DESIGN.md 6)"}
checks = []
for i in ids:
    if i in CLAIMED:
        c = CLAIMED[i]
        checks.append({
            "property_id": i,
            "quick_cmd": "bin/phqv %s --tier quick" % i,
            "thorough_cmd": "bin/phqv %s --tier thorough" % i,
            "evidence_file": "evidence/%s.json" % i,
            "replay_cmd_template": "bin/phqv --replay {path}",
            "engine": "phqv",
            "level_claimed": {"category": "proof", "text": c['text'], "design_ref": c['ref']},
            "level_note": NOTE_COMMON + c.get('note', ''),
            "technique": TECH,
        })
m = {
 "version": 1,
 "setup_cmd": "python3 -m compileall -q /verif/phqv /verif/spec /verif/bin >/dev/null 2>&1 || true",
 "hooks": {"guard": "PHQ_VERIF", "enable": "n/a: contracts are attached to C mechanically extracted from the headers on every run; no line of /repo is touched by the machinery",
           "baseline_off_cmd": "cmake --build /repo/_build && ctest --test-dir /repo/_build -j8 --timeout 900", "source_commits": [], "add_only": True},
 "engines": [{"name": "phqv", "path": "bin/phqv", "serves_properties": sorted(CLAIMED), "kind_free_text": "clang JSON AST -> lowered IR -> (C + CBMC DFCC contracts | real-arithmetic VCs + z3); native replay of counterexamples against the real headers"}],
 "checks": checks,
 "not_applicable": [{"property_id": i, "reason": REASONS.get(i, "not built yet (machinery in progress; see DESIGN.md 10)")} for i in ids if i not in CLAIMED],
}
json.dump(m, open('/verif/MANIFEST.json', 'w'), indent=1)
print(len(checks), 'claimed')
